(* Model/Addr.v — address strings (service.go parseAddress / Bind / setListener,
   connection.go NewConnection) and socket activation (socketactivation.go).

   The operating system is a parameter: whether listen(2) on a well-formed
   endpoint succeeds is decided by an abstract namespace (files, abstract
   names, ports) carried in the state; whether an inherited descriptor is a
   listening socket is an oracle argument.  No proofs in this file. *)
From VL Require Import Bytes Lit.
From Coq Require Import ZArith.
Open Scope N_scope.

(* ================= parsing ================= *)

(* strings.SplitN(address, ":", 2) then strings.SplitN(rest, ";", 2)[0] *)
Definition split_addr (s : bytes) : option (bytes * bytes) :=
  match split2 58 s with
  | (_, None) => None
  | (proto, Some rest) => Some (proto, fst (split2 59 rest))
  end.

Inductive parse_res :=
| AOk (proto addr : bytes)
| AErr            (* an error is returned *)
| APanic.         (* Go would panic (index out of range) *)

(* Service.parseAddress: the protocol must be unix or tcp, a unix path must not be empty *)
Definition svc_parse (s : bytes) : parse_res :=
  match split_addr s with
  | None => AErr
  | Some (proto, addr) =>
    if bytes_eqb proto s_unix then (match addr with [] => AErr | _ => AOk proto addr end)
    else if bytes_eqb proto s_tcp then AOk proto addr
    else AErr
  end.

(* NewConnection: the protocol is handed to the dialer unchecked *)
Definition client_parse (s : bytes) : parse_res :=
  match split_addr s with
  | None => AErr
  | Some (proto, addr) => AOk proto addr
  end.

(* the pre-fix Bind: parseAddress's error was ignored and setListener indexed address[0] *)
Definition svc_parse_unchecked (s : bytes) (stale_proto stale_addr : bytes) : parse_res :=
  let '(proto, addr) := match split_addr s with None => (stale_proto, stale_addr) | Some pa => pa end in
  if bytes_eqb proto s_unix then (match addr with [] => APanic | _ => AOk proto addr end)
  else AOk proto addr.

Definition is_abstract (addr : bytes) : bool := match addr with 64 :: _ => true | _ => false end.

(* ================= endpoints and the namespace ================= *)

Inductive endpoint :=
| EFile (path : bytes)        (* filesystem unix socket *)
| EAbstract (name : bytes)    (* abstract unix socket, name without the '@' *)
| ETcp (hostport : bytes).

Definition endpoint_of (proto addr : bytes) : endpoint :=
  if bytes_eqb proto s_unix then
    match addr with 64 :: name => EAbstract name | _ => EFile addr end
  else ETcp addr.

Definition endpoint_eqb (a c : endpoint) : bool :=
  match a, c with
  | EFile p, EFile q => bytes_eqb p q
  | EAbstract p, EAbstract q => bytes_eqb p q
  | ETcp p, ETcp q => bytes_eqb p q
  | _, _ => false
  end.

(* the world: socket files that exist (stale or live) and endpoints with an open listener *)
Record world := mkWorld { w_files : list bytes; w_open : list endpoint }.

Definition is_open (w : world) (e : endpoint) : bool := existsb (endpoint_eqb e) (w_open w).
Definition remove_file (p : bytes) (l : list bytes) : list bytes := filter (fun q => negb (bytes_eqb p q)) l.
Definition remove_open (e : endpoint) (l : list endpoint) : list endpoint := filter (fun q => negb (endpoint_eqb e q)) l.

(* the port part: what follows the last ':' (the whole string if there is none) *)
Fixpoint port_after (cur : bytes) (l : bytes) : bytes :=
  match l with
  | [] => cur
  | c :: r => if c =? 58 then port_after [] r else port_after (cur ++ [c]) r
  end.

(* the address asks for an ephemeral port: the port part is empty or all zeros ("", "host:", ":0", ":00");
   the empty address "" (from "tcp:") is the wildcard host with an ephemeral port as well *)
Definition ends_with_port0 (hp : bytes) : bool :=
  forallb (fun c => c =? 48) (port_after [] hp).

(* net.Listen on an endpoint the OS considers well-formed ([ok] is the oracle for
   that: existing directory, path length, resolvable host, free port).
   A filesystem path is removed first (os.Remove), which replaces a stale socket. *)
Definition os_listen (ok : bool) (e : endpoint) (w : world) : option world :=
  if negb ok then None
  else match e with
       | EFile p =>
         (* after os.Remove the path is free unless a live listener of ours still owns it:
            the file is gone either way, bind(2) then succeeds *)
         Some (mkWorld (p :: remove_file p (w_files w)) (e :: remove_open e (w_open w)))
       | ETcp hp =>
         (* port 0 / no port asks for a fresh port: it never collides and nobody can name it *)
         if ends_with_port0 hp then Some w
         else if is_open w e then None else Some (mkWorld (w_files w) (e :: w_open w))
       | _ => if is_open w e then None else Some (mkWorld (w_files w) (e :: w_open w))
       end.

(* closing a listener; a filesystem socket is unlinked (SetUnlinkOnClose) *)
Definition os_close (e : endpoint) (w : world) : world :=
  match e with
  | EFile p => mkWorld (remove_file p (w_files w)) (remove_open e (w_open w))
  | _ => mkWorld (w_files w) (remove_open e (w_open w))
  end.

(* ================= the service's address state ================= *)

Record svc := mkSvc { sv_running : bool; sv_listener : option endpoint }.
Definition svc_init : svc := mkSvc false None.

Inductive op_res := OOk | OErr | OPanic.

(* Bind (without socket activation): refused while running; the address is parsed
   first and a parse error is returned before anything is touched *)
Definition svc_bind (ok : bool) (s : bytes) (st : svc) (w : world) : op_res * svc * world :=
  if sv_running st then (OErr, st, w)
  else match svc_parse s with
       | AErr => (OErr, st, w)
       | APanic => (OPanic, st, w)
       | AOk proto addr =>
         let e := endpoint_of proto addr in
         match os_listen ok e w with
         | None => (OErr, st, w)
         | Some w' => (OOk, mkSvc false (Some e), w')
         end
       end.

(* serving starts (DoListen / the loop of Listen) *)
Definition svc_start (st : svc) : op_res * svc :=
  match sv_listener st with
  | None => (OErr, st)
  | Some e => (OOk, mkSvc true (Some e))
  end.

(* Shutdown + return of the serving call: the listener is closed and forgotten *)
Definition svc_stop (st : svc) (w : world) : svc * world :=
  match sv_listener st with
  | None => (mkSvc false None, w)
  | Some e => (mkSvc false None, os_close e w)
  end.

(* NewConnection + a call reach the service iff the client's endpoint is the one the
   service is serving on (a bound listener that is not being served accepts nothing) *)
Definition client_connect (s : bytes) (st : svc) (w : world) : op_res :=
  match client_parse s with
  | AOk proto addr =>
    if (bytes_eqb proto s_unix || bytes_eqb proto s_tcp) && sv_running st
       && match sv_listener st with
          | Some e => endpoint_eqb e (endpoint_of proto addr)
                      && match e with ETcp hp => negb (ends_with_port0 hp) | _ => true end   (* port 0 names no endpoint *)
          | None => false
          end
    then OOk else OErr
  | _ => OErr
  end.

(* ================= strconv.Atoi ================= *)

Definition is_dig (c : N) : bool := (48 <=? c) && (c <=? 57).
Fixpoint digits_val (acc : Z) (s : bytes) : Z :=
  match s with [] => acc | c :: r => digits_val (acc * 10 + Z.of_N (c - 48)) r end.

Definition int64_min : Z := (- 9223372036854775808)%Z.
Definition int64_max : Z := 9223372036854775807%Z.

(* optional sign, one or more decimal digits, value within int64 *)
Definition atoi (s : bytes) : option Z :=
  let '(neg, body) := match s with
                      | 45 :: r => (true, r)
                      | 43 :: r => (false, r)
                      | _ => (false, s)
                      end in
  match body with
  | [] => None
  | _ =>
    if forallb is_dig body then
      let v := digits_val 0 body in
      let v' := if neg then (- v)%Z else v in
      if (int64_min <=? v')%Z && (v' <=? int64_max)%Z then Some v' else None
    else None
  end.

(* ================= socket activation ================= *)

Record env := mkEnv {
  e_pid : Z;                         (* os.Getpid() *)
  e_listen_pid : option bytes;       (* None = unset; os.Getenv gives "" then *)
  e_listen_fds : option bytes;
  e_fdnames : option bytes }.

Definition getenv (o : option bytes) : bytes := match o with Some s => s | None => [] end.

Fixpoint first_index (name : bytes) (l : list bytes) (i : nat) : option nat :=
  match l with
  | [] => None
  | x :: r => if bytes_eqb x name then Some i else first_index name r (S i)
  end.

(* the descriptor activationListener selects, before it looks at the descriptor itself *)
Definition activation_fd (e : env) : option Z :=
  match atoi (getenv (e_listen_pid e)) with
  | None => None
  | Some pid =>
    if negb (pid =? e_pid e)%Z then None else
    match atoi (getenv (e_listen_fds e)) with
    | None => None
    | Some nfds =>
      if (nfds <? 1)%Z then None
      else if (1 <? nfds)%Z then
        match e_fdnames e with
        | None => None
        | Some names =>
          let l := split_all 58 names in
          if negb (Z.of_nat (length l) =? nfds)%Z then None
          else match first_index s_varlink l 0 with
               | Some i => Some (3 + Z.of_nat i)%Z
               | None => None
               end
        end
      else Some 3%Z
    end
  end.

Inductive listener_choice :=
| LInherited (fd : Z)      (* serve on the inherited descriptor; the address argument is not inspected *)
| LBindAddress.            (* fall back to binding the given address *)

(* setListener's decision; [is_socket] stands for net.FileListener succeeding on the descriptor *)
Definition choose_listener (e : env) (is_socket : Z -> bool) : listener_choice :=
  match activation_fd e with
  | Some fd => if is_socket fd then LInherited fd else LBindAddress
  | None => LBindAddress
  end.
