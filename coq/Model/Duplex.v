(* Model/Duplex.v — one connection used in both directions at once (an upgraded connection with a reader
   and a writer goroutine; a service handler that writes while the client writes): two context-aware
   operations of Model/Ctxio.v, one reading and one writing, interleaved arbitrarily.

   What the two operations could share is a parameter, because it is exactly what a change to
   ctxio/conn.go can get wrong:

     scope who other = true   the operation in direction [who] also sets the deadline of direction [other]
                              (conn.go: Read and ReadBytes call SetReadDeadline, Write calls SetWriteDeadline,
                               so scope is equality; one helper calling SetDeadline would make it constantly true)
     shared_chan = true       both operations use one completion channel
                              (conn.go: every call makes its own channel)

   No proofs in this file. *)
From VL Require Import Bytes Ctxio.
Open Scope nat_scope.

Inductive dir := Rd | Wr.
Definition flip (d : dir) : dir := match d with Rd => Wr | Wr => Rd end.
Definition dir_eqb (a c : dir) : bool := match a, c with Rd, Rd | Wr, Wr => true | _, _ => false end.

Record dst := mkD { d_rd : cst; d_wr : cst }.
Definition get (d : dir) (s : dst) : cst := match d with Rd => d_rd s | Wr => d_wr s end.
Definition put (d : dir) (s : dst) (c : cst) : dst :=
  match d with Rd => mkD c (d_wr s) | Wr => mkD (d_rd s) c end.

Definition with_deadline (s : cst) (d : dline) : cst :=
  mkC (pc s) (helper s) (chan s) d (has_deadline s) (expired s) (cancelled s) (avail s) (peer_closed s) (honours s)
      (delivered s) (discarded s) (sent s).
Definition with_chan (s : cst) (c : option hres) : cst :=
  mkC (pc s) (helper s) c (deadline s) (has_deadline s) (expired s) (cancelled s) (avail s) (peer_closed s) (honours s)
      (delivered s) (discarded s) (sent s).

(* the caller steps that call SetXDeadline on the connection *)
Definition sets_deadline (s : cst) (l : clabel) : bool :=
  match l, pc s with
  | LCaller, PStart | LCaller, PForce | LCaller, PReset => true
  | _, _ => false
  end.

(* the steps that put a value into / take a value out of the completion channel *)
Definition touches_chan (l : clabel) : bool :=
  match l with LHelperSend | LCallerRecv => true | _ => false end.

(* one step of the operation in direction [who] *)
Definition dstep (scope : dir -> dir -> bool) (shared_chan : bool) (s : dst) (who : dir) (l : clabel) : option dst :=
  let me := get who s in
  let other := get (flip who) s in
  (* with a shared channel the operation sees whatever the other one put there *)
  let me0 := if shared_chan then with_chan me (match chan me with Some r => Some r | None => chan other end) else me in
  match cstep me0 l with
  | None => None
  | Some me' =>
    let other1 := if scope who (flip who) && sets_deadline me0 l then with_deadline other (deadline me') else other in
    let other2 := if shared_chan && touches_chan l then with_chan other1 (chan me') else other1 in
    Some (put (flip who) (put who s me') other2)
  end.

Fixpoint drun (scope : dir -> dir -> bool) (sc : bool) (s : dst) (ls : list (dir * clabel)) : option dst :=
  match ls with
  | [] => Some s
  | (w, l) :: r => match dstep scope sc s w l with Some s' => drun scope sc s' r | None => None end
  end.

Inductive dreach (scope : dir -> dir -> bool) (sc : bool) (s0 : dst) : dst -> Prop :=
| dr_init : dreach scope sc s0 s0
| dr_step : forall s w l s', dreach scope sc s0 s -> dstep scope sc s w l = Some s' -> dreach scope sc s0 s'.

(* conn.go as it is: each direction sets its own deadline, every call has its own channel *)
Definition own_scope : dir -> dir -> bool := dir_eqb.
(* one helper that calls conn.SetDeadline for reads and writes alike *)
Definition both_scope : dir -> dir -> bool := fun _ _ => true.
