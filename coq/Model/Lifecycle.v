(* Model/Lifecycle.v — the accept / shutdown / timeout life-cycle of a Service
   (service.go: Bind, Listen, DoListen, Shutdown, teardown, handleConnection's
   accounting) as a small-step interleaving semantics.

   One atomic step = one critical section (everything between Lock and Unlock),
   one WaitGroup operation, one blocking call's return, or one environment event.
   "For all schedules / histories" is "for all reachable states / all label
   sequences".  The model is of the code as repaired by the fix: commits
   (listener closed by teardown, teardown deferred only after a successful Bind,
   running read and written under the mutex).  No proofs in this file. *)
From VL Require Import Bytes.
Open Scope nat_scope.

(* a listening endpoint object *)
Record lobj := mkLobj { lo_open : bool; lo_queue : list nat (* connections waiting in the backlog *) }.

(* what happened to a connection *)
Inductive cst :=
| CRefused        (* connect failed: no open listener *)
| CQueued         (* in the backlog of a listener *)
| CDropped        (* was in the backlog when the listener was closed: never served *)
| CHeld           (* returned by Accept, handler not started yet *)
| CServed         (* handler running, connection open *)
| CEnded          (* connection ended (close, abort, handler error, cancel); handler has not run its exit yet *)
| CGone.          (* handler exited: counter decremented, WaitGroup done *)

Inductive ret := RNilRet | RTimeoutErr | RAcceptErr | RDeadlineErr | RNoListener | RBindErr.

(* program counter of the serving call (Listen / DoListen) *)
Inductive spc :=
| SNone                          (* no serving call in progress *)
| SEnter                         (* DoListen: about to read the listener *)
| SSetRunning                    (* about to set running := true *)
| SLoopHead                      (* for isRunning() *)
| SRefresh                       (* refreshTimeout *)
| SAccept                        (* blocked in Accept *)
| STimeout                       (* Accept returned a timeout: about to look at conncounter *)
| SAcceptErr                     (* Accept returned another error: about to look at running *)
| SGot (c : nat)                 (* Accept returned connection c: about to increment conncounter *)
| SAdd (c : nat)                 (* about to wg.Add(1) *)
| SSpawn (c : nat)               (* about to start the handler goroutine *)
| STeardown (r : ret)            (* deferred teardown *)
| SWait (r : ret).               (* deferred wg.Wait() *)

Record lstate := mkL {
  running : bool;
  listener : option nat;           (* s.listener: index into objs *)
  objs : list lobj;
  conncounter : nat;
  wg : nat;
  serve : spc;
  tmo : bool;                      (* the serving call was started with timeout != 0 *)
  conns : list cst;                (* connection id = position *)
  late : list bool;                (* per connection: did it arrive after a Shutdown on this binding had completed? *)
  shut : bool;                     (* a Shutdown has completed since the current listener was bound *)
  result : option ret;             (* return value of the last serving call *)
  accepted_idle : bool }.          (* bookkeeping for C15: since the last arming of the deadline, was a connection accepted? *)

Definition l_init : lstate := mkL false None [] 0 0 SNone false [] [] false None false.

Inductive label :=
| LBind (ok : bool)              (* Bind(address) from outside; ok = address well formed and listen(2) succeeds *)
| LStartDoListen (timeout : bool)
| LStartListen (ok : bool) (timeout : bool)
| LServe                         (* next internal step of the serving call *)
| LAcceptConn                    (* Accept returns the head of the backlog *)
| LAcceptClosed                  (* Accept fails because the listener is closed *)
| LExpire                        (* Accept fails with a timeout: the armed deadline passed *)
| LShutdown                      (* one Shutdown call (its critical section) *)
| LConnect                       (* a client connects *)
| LEnd (c : nat)                 (* connection c ends *)
| LHandlerExit (c : nat).        (* handler c runs its deferred exit *)

(* ---- list helpers ---- *)
Fixpoint set_nth {A} (i : nat) (x : A) (l : list A) : list A :=
  match l, i with
  | [], _ => []
  | _ :: r, O => x :: r
  | y :: r, S j => y :: set_nth j x r
  end.
Definition get_obj (s : lstate) (i : nat) : lobj := nth i (objs s) (mkLobj false []).
Definition cur_obj (s : lstate) : option lobj :=
  match listener s with Some i => Some (get_obj s i) | None => None end.
Definition conn_st (s : lstate) (c : nat) : cst := nth c (conns s) CRefused.

Definition upd_serve (s : lstate) (p : spc) : lstate :=
  mkL (running s) (listener s) (objs s) (conncounter s) (wg s) p (tmo s) (conns s) (late s) (shut s) (result s) (accepted_idle s).

(* closing listener object i: the backlog is dropped *)
Definition close_obj (s : lstate) (i : nat) : list lobj * list cst :=
  let o := get_obj s i in
  (set_nth i (mkLobj false []) (objs s),
   fold_left (fun cs c => set_nth c CDropped cs) (lo_queue o) (conns s)).

(* the listener object the serving call accepts on: fixed when it started (local variable l) *)
(* Because a serving call keeps s.listener unchanged until its own teardown (Bind is refused while
   running, and a serving call is started only on a bound, not yet running service), l = listener s
   throughout; the model reads it from the state. *)

Definition lstep (s : lstate) (lb : label) : option lstate :=
  match lb with
  | LBind ok =>
    (* refused while running; otherwise a new listener replaces the field (an earlier one is not closed) *)
    if running s then Some s
    else if ok then
      Some (mkL false (Some (length (objs s))) (objs s ++ [mkLobj true []]) (conncounter s) (wg s) (serve s) (tmo s)
                (conns s) (late s) false (result s) (accepted_idle s))
    else Some s
  | LStartDoListen t =>
    match serve s with
    | SNone => Some (mkL (running s) (listener s) (objs s) (conncounter s) (wg s) SEnter t (conns s) (late s) (shut s) None false)
    | _ => None
    end
  | LStartListen ok t =>
    match serve s with
    | SNone =>
      (* Listen = Bind, then (only after a successful Bind) defer teardown and enter the loop *)
      if running s then Some (mkL (running s) (listener s) (objs s) (conncounter s) (wg s) SNone t (conns s) (late s) (shut s) (Some RBindErr) false)
      else if ok then
        Some (mkL false (Some (length (objs s))) (objs s ++ [mkLobj true []]) (conncounter s) (wg s) SSetRunning t
                  (conns s) (late s) false None false)
      else Some (mkL (running s) (listener s) (objs s) (conncounter s) (wg s) SNone t (conns s) (late s) (shut s) (Some RBindErr) false)
    | _ => None
    end
  | LServe =>
    match serve s with
    | SEnter => match listener s with
                | None => Some (upd_serve s (STeardown RNoListener))
                | Some _ => Some (upd_serve s SSetRunning)
                end
    | SSetRunning =>
      Some (mkL true (listener s) (objs s) (conncounter s) (wg s) SLoopHead (tmo s) (conns s) (late s) (shut s) (result s) (accepted_idle s))
    | SLoopHead => if running s then Some (upd_serve s (if tmo s then SRefresh else SAccept))
                   else Some (upd_serve s (STeardown RNilRet))
    | SRefresh =>
      (* SetDeadline fails on a closed listener *)
      match cur_obj s with
      | Some o => if lo_open o
                  then Some (mkL (running s) (listener s) (objs s) (conncounter s) (wg s) SAccept (tmo s) (conns s) (late s) (shut s) (result s) false)
                  else Some (upd_serve s (STeardown RDeadlineErr))
      | None => Some (upd_serve s (STeardown RDeadlineErr))
      end
    | STimeout => if Nat.eqb (conncounter s) 0 then Some (upd_serve s (STeardown RTimeoutErr)) else Some (upd_serve s SLoopHead)
    | SAcceptErr => if running s then Some (upd_serve s (STeardown RAcceptErr)) else Some (upd_serve s (STeardown RNilRet))
    | SGot c =>
      Some (mkL (running s) (listener s) (objs s) (S (conncounter s)) (wg s) (SAdd c) (tmo s) (conns s) (late s) (shut s) (result s) (accepted_idle s))
    | SAdd c =>
      Some (mkL (running s) (listener s) (objs s) (conncounter s) (S (wg s)) (SSpawn c) (tmo s) (conns s) (late s) (shut s) (result s) (accepted_idle s))
    | SSpawn c =>
      Some (mkL (running s) (listener s) (objs s) (conncounter s) (wg s) SLoopHead (tmo s)
                (set_nth c (match conn_st s c with CEnded => CEnded | _ => CServed end) (conns s)) (late s) (shut s) (result s) (accepted_idle s))
    | STeardown r =>
      (* lock; close the listener if there is one; listener = nil; running = false; unlock *)
      match listener s with
      | Some i => let '(os, cs) := close_obj s i in
                  Some (mkL false None os (conncounter s) (wg s) (SWait r) (tmo s) cs (late s) (shut s) (result s) (accepted_idle s))
      | None => Some (mkL false None (objs s) (conncounter s) (wg s) (SWait r) (tmo s) (conns s) (late s) (shut s) (result s) (accepted_idle s))
      end
    | SWait r => if Nat.eqb (wg s) 0
                 then Some (mkL (running s) (listener s) (objs s) (conncounter s) (wg s) SNone (tmo s) (conns s) (late s) (shut s) (Some r) (accepted_idle s))
                 else None
    | SNone | SAccept => None
    end
  | LAcceptConn =>
    match serve s, listener s with
    | SAccept, Some i =>
      let o := get_obj s i in
      match lo_open o, lo_queue o with
      | true, c :: q =>
        Some (mkL (running s) (listener s) (set_nth i (mkLobj true q) (objs s)) (conncounter s) (wg s) (SGot c) (tmo s)
                  (set_nth c CHeld (conns s)) (late s) (shut s) (result s) true)
      | _, _ => None
      end
    | _, _ => None
    end
  | LAcceptClosed =>
    match serve s, cur_obj s with
    | SAccept, Some o => if lo_open o then None else Some (upd_serve s SAcceptErr)
    | SAccept, None => Some (upd_serve s SAcceptErr)
    | _, _ => None
    end
  | LExpire =>
    match serve s, cur_obj s with
    | SAccept, Some o => if tmo s && lo_open o then Some (upd_serve s STimeout) else None
    | _, _ => None
    end
  | LShutdown =>
    (* lock; running = false; if listener != nil { listener.Close() }; unlock *)
    match listener s with
    | Some i => let '(os, cs) := close_obj s i in
                Some (mkL false (listener s) os (conncounter s) (wg s) (serve s) (tmo s) cs (late s) true (result s) (accepted_idle s))
    | None => Some (mkL false None (objs s) (conncounter s) (wg s) (serve s) (tmo s) (conns s) (late s) (shut s) (result s) (accepted_idle s))
    end
  | LConnect =>
    (* a client dials the address the service is bound to *)
    match listener s with
    | Some i =>
      let o := get_obj s i in
      if lo_open o
      then Some (mkL (running s) (listener s) (set_nth i (mkLobj true (lo_queue o ++ [length (conns s)])) (objs s)) (conncounter s) (wg s)
                     (serve s) (tmo s) (conns s ++ [CQueued]) (late s ++ [shut s]) (shut s) (result s) (accepted_idle s))
      else Some (mkL (running s) (listener s) (objs s) (conncounter s) (wg s) (serve s) (tmo s) (conns s ++ [CRefused]) (late s ++ [shut s])
                     (shut s) (result s) (accepted_idle s))
    | None => Some (mkL (running s) (listener s) (objs s) (conncounter s) (wg s) (serve s) (tmo s) (conns s ++ [CRefused]) (late s ++ [shut s])
                        (shut s) (result s) (accepted_idle s))
    end
  | LEnd c =>
    match conn_st s c with
    | CServed | CHeld =>
      Some (mkL (running s) (listener s) (objs s) (conncounter s) (wg s) (serve s) (tmo s) (set_nth c CEnded (conns s)) (late s) (shut s)
                (result s) (accepted_idle s))
    | _ => None
    end
  | LHandlerExit c =>
    (* the handler goroutine exists once SSpawn has run: serve is past SSpawn c *)
    match conn_st s c, serve s with
    | CEnded, SGot c' | CEnded, SAdd c' | CEnded, SSpawn c' =>
      if Nat.eqb c c' then None
      else Some (mkL (running s) (listener s) (objs s) (pred (conncounter s)) (pred (wg s)) (serve s) (tmo s) (set_nth c CGone (conns s))
                     (late s) (shut s) (result s) (accepted_idle s))
    | CEnded, _ =>
      Some (mkL (running s) (listener s) (objs s) (pred (conncounter s)) (pred (wg s)) (serve s) (tmo s) (set_nth c CGone (conns s))
                (late s) (shut s) (result s) (accepted_idle s))
    | _, _ => None
    end
  end.

Fixpoint run (s : lstate) (ls : list label) : option lstate :=
  match ls with
  | [] => Some s
  | l :: r => match lstep s l with Some s' => run s' r | None => None end
  end.

Inductive reach : lstate -> Prop :=
| reach_init : reach l_init
| reach_step : forall s l s', reach s -> lstep s l = Some s' -> reach s'.

(* number of handler goroutines that exist and have not run their exit *)
Definition live_handler (serving : spc) (c : nat) (st : cst) : bool :=
  match st with
  | CServed => true
  | CEnded => match serving with
              | SGot c' | SAdd c' | SSpawn c' => negb (Nat.eqb c c')
              | _ => true
              end
  | _ => false
  end.
Fixpoint count_live (serving : spc) (i : nat) (l : list cst) : nat :=
  match l with
  | [] => 0
  | st :: r => (if live_handler serving i st then 1 else 0) + count_live serving (S i) r
  end.
Definition live (s : lstate) : nat := count_live (serve s) 0 (conns s).

(* the in-flight increments of the serving call *)
Definition inflight_counter (p : spc) : nat := match p with SAdd _ | SSpawn _ => 1 | _ => 0 end.
Definition inflight_wg (p : spc) : nat := match p with SSpawn _ => 1 | _ => 0 end.
