(* Model/Service.v — the service side of varlink/go: registry, request
   decoding, routing (HandleMessage), the reply primitives of Call
   (sendMessage / Reply / ReplyError / the four org.varlink.service errors),
   the built-in org.varlink.service methods, the per-connection loop
   (handleConnection) and a system of N connections.

   Handlers are arbitrary strategy trees over the reply primitives.
   No proofs in this file. *)
From VL Require Import Bytes Lit Json Wire.
Open Scope N_scope.

(* ================= requests ================= *)

Record call := mkCall { c_method : bytes; c_params : option bytes; c_more : bool; c_oneway : bool; c_upgrade : bool }.

Definition call_schema : list (bytes * fkind) :=
  [(s_method, KString); (s_parameters, KRaw); (s_more, KBool); (s_oneway, KBool); (s_upgrade, KBool)].

(* json.Unmarshal(request, &serviceCall) *)
Definition decode_call (request : bytes) : option call :=
  match decode_struct call_schema request with
  | Some [FString m; FRaw p; FBool mo; FBool ow; FBool up] => Some (mkCall m p mo ow up)
  | _ => None
  end.

(* ================= replies ================= *)

(* what a handler can pass as reply parameters *)
Inductive pval :=
| PNone                       (* nil: the member is omitted *)
| PJson (v : jvalue)          (* a Go value tree *)
| PRaw (raw : bytes)          (* a json.RawMessage *)
| PEnc (enc : bytes).         (* a Go struct value whose Marshal output is enc (the library's own reply structs) *)

Fixpoint nums_ok (v : jvalue) : bool :=
  match v with
  | JNum t => match t with [] => true | _ => num_ok t end
  | JArr l => forallb nums_ok l
  | JObj m => forallb (fun kv => nums_ok (snd kv)) m
  | _ => true
  end.
(* json.Number("") is written as 0 *)
Fixpoint norm_nums (v : jvalue) : jvalue :=
  match v with
  | JNum [] => JNum [48]
  | JArr l => JArr (map norm_nums l)
  | JObj m => JObj (map (fun kv => (fst kv, norm_nums (snd kv))) m)
  | _ => v
  end.
(* json.Marshal of a value tree: None = error (invalid number literal) *)
Definition marshal_value (v : jvalue) : option bytes :=
  if nums_ok v then Some (encode_value (norm_nums v)) else None.

(* Some None = omitted, Some (Some b) = encoded member value, None = Marshal fails *)
Definition enc_params (p : pval) : option (option bytes) :=
  match p with
  | PNone => Some None
  | PJson v => option_map Some (marshal_value v)
  | PRaw raw => option_map Some (compact_raw raw)
  | PEnc enc => Some (Some enc)
  end.

Definition member (name : bytes) (value : bytes) : bytes := encode_string name ++ [58] ++ value.

Fixpoint join_members (l : list bytes) : bytes :=
  match l with [] => [] | [x] => x | x :: r => x ++ [44] ++ join_members r end.

(* json.Marshal(&serviceReply{Parameters, Continues, Error}) *)
Definition encode_reply (params : option bytes) (continues : bool) (err : bytes) : bytes :=
  [123] ++ join_members
    ((match params with Some p => [member s_parameters p] | None => [] end)
     ++ (if continues then [member s_continues lit_true] else [])
     ++ (match err with [] => [] | _ => [member s_error (encode_string err)] end))
  ++ [125].

Inductive stdkind := EInterfaceNotFound | EMethodNotFound | EMethodNotImplemented | EInvalidParameter.
Definition std_name (k : stdkind) : bytes :=
  match k with
  | EInterfaceNotFound => err_InterfaceNotFound | EMethodNotFound => err_MethodNotFound
  | EMethodNotImplemented => err_MethodNotImplemented | EInvalidParameter => err_InvalidParameter
  end.
Definition std_field (k : stdkind) : bytes :=
  match k with
  | EInterfaceNotFound => s_interface | EMethodNotFound => s_method
  | EMethodNotImplemented => s_method | EInvalidParameter => s_parameter
  end.
(* the parameter struct of a standard error: one string member, never omitted *)
Definition std_params (k : stdkind) (arg : bytes) : bytes :=
  [123] ++ member (std_field k) (encode_string arg) ++ [125].

Inductive action :=
| AReply (continues : bool) (p : pval)       (* c.Continues = continues; c.Reply(p) *)
| AReplyError (name : bytes) (p : pval)      (* c.ReplyError(name, p) *)
| AStdError (k : stdkind) (arg : bytes).     (* c.ReplyInterfaceNotFound(arg) etc. *)

Inductive result :=
| ResOk                (* nil *)
| ResRefused           (* error returned before anything is marshalled or written *)
| ResMarshalErr        (* json.Marshal failed: nothing written *)
| ResWriteFailed.      (* the write failed *)

(* state of the connection's write side: bytes written so far, and how many
   more writes succeed (None = all) *)
Record wstate := mkW { w_out : bytes; w_left : option nat }.

(* Call.sendMessage *)
Definition send_message (c : call) (body : option bytes) (w : wstate) : result * wstate :=
  if c_oneway c then (ResOk, w)
  else match body with
       | None => (ResMarshalErr, w)
       | Some b =>
         match w_left w with
         | Some O => (ResWriteFailed, w)
         | Some (S k) => (ResOk, mkW (w_out w ++ frame b) (Some k))
         | None => (ResOk, mkW (w_out w ++ frame b) None)
         end
       end.

Definition error_name_ok (name : bytes) : bool :=
  match last_index_of 46 name with
  | None | Some O => false
  | Some r => negb (bytes_eqb (firstn r name) org_varlink_service)
  end.

Definition do_action (c : call) (a : action) (w : wstate) : result * wstate :=
  match a with
  | AReply false p =>
    send_message c (option_map (fun ps => encode_reply ps false []) (enc_params p)) w
  | AReply true p =>
    if c_more c
    then send_message c (option_map (fun ps => encode_reply ps true []) (enc_params p)) w
    else (ResRefused, w)
  | AReplyError name p =>
    if error_name_ok name
    then send_message c (option_map (fun ps => encode_reply ps false name) (enc_params p)) w
    else (ResRefused, w)
  | AStdError k arg =>
    send_message c (Some (encode_reply (Some (std_params k arg)) false (std_name k))) w
  end.

(* ================= handlers ================= *)

Inductive hprog :=
| Ret (err : bool)                           (* the dispatcher returns err (true) or nil *)
| Do (a : action) (k : result -> hprog).

(* one reply attempt as seen in the log *)
Record attempt := mkAtt { at_action : action; at_result : result }.

Fixpoint run_hprog (c : call) (h : hprog) (w : wstate) (log : list attempt) : bool * wstate * list attempt :=
  match h with
  | Ret e => (e, w, rev log)
  | Do a k =>
    let '(r, w') := do_action c a w in
    run_hprog c (k r) w' (mkAtt a r :: log)
  end.

Definition is_error (r : result) : bool := match r with ResOk => false | _ => true end.

(* ================= registry ================= *)

Record registry := mkReg {
  r_vendor : bytes; r_product : bytes; r_version : bytes; r_url : bytes;
  r_names : list bytes;                      (* s.names: registration order *)
  r_descr : list (bytes * bytes);            (* s.descriptions *)
  r_running : bool }.

Fixpoint lookup (k : bytes) (m : list (bytes * bytes)) : option bytes :=
  match m with
  | [] => None
  | (k', v) :: r => if bytes_eqb k k' then Some v else lookup k r
  end.

Definition registered (reg : registry) (name : bytes) : bool := existsb (bytes_eqb name) (r_names reg).

(* the description of org.varlink.service is a constant of the library; the harness passes it in *)
Definition new_service (vendor product version url svc_descr : bytes) : registry :=
  mkReg vendor product version url [org_varlink_service] [(org_varlink_service, svc_descr)] false.

(* RegisterInterface: (new registry, refused?) *)
Definition register (reg : registry) (name descr : bytes) : registry * bool :=
  if registered reg name then (reg, true)
  else if r_running reg then (reg, true)
  else (mkReg (r_vendor reg) (r_product reg) (r_version reg) (r_url reg)
              (r_names reg ++ [name]) (r_descr reg ++ [(name, descr)]) (r_running reg), false).

Definition set_running (reg : registry) (b0 : bool) : registry :=
  mkReg (r_vendor reg) (r_product reg) (r_version reg) (r_url reg) (r_names reg) (r_descr reg) b0.

(* ================= built-in interface ================= *)

Definition opt_member (name : bytes) (s : bytes) : list bytes :=
  match s with [] => [] | _ => [member name (encode_string s)] end.

Definition enc_strlist (l : list bytes) : bytes :=
  [91] ++ join_members (map encode_string l) ++ [93].

(* replyGetInfo's struct: every member omitempty *)
Definition info_params (reg : registry) : bytes :=
  [123] ++ join_members
    (opt_member s_vendor (r_vendor reg) ++ opt_member s_product (r_product reg)
     ++ opt_member s_version (r_version reg) ++ opt_member s_url (r_url reg)
     ++ (match r_names reg with [] => [] | ns => [member s_interfaces (enc_strlist ns)] end))
  ++ [125].

Definition descr_params (d : bytes) : bytes :=
  [123] ++ join_members (opt_member s_description d) ++ [125].

Definition iface_schema : list (bytes * fkind) := [(s_interface, KString)].

(* what the built-in dispatcher sends: a reply body, through Reply (no continues) or a standard error *)
Inductive builtin_out :=
| BReply (params : bytes)
| BStd (k : stdkind) (arg : bytes).

Definition builtin (reg : registry) (c : call) (methodname : bytes) : builtin_out :=
  if bytes_eqb methodname m_GetInfo then BReply (info_params reg)
  else if bytes_eqb methodname m_GetInterfaceDescription then
    match c_params c with
    | None => BStd EInvalidParameter s_parameters
    | Some raw =>
      match decode_struct iface_schema raw with
      | Some [FString name] =>
        match name with
        | [] => BStd EInvalidParameter s_interface
        | _ => match lookup name (r_descr reg) with
               | Some d => BReply (descr_params d)
               | None => BStd EInvalidParameter s_interface
               end
        end
      | _ => BStd EInvalidParameter s_parameters
      end
    end
  else BStd EMethodNotFound methodname.

(* ================= routing ================= *)

Inductive route_t :=
| RInvalidMethod
| RBuiltin (m : bytes)
| RDispatch (iface m : bytes)
| RNoInterface (iface : bytes).

Definition route (reg : registry) (method : bytes) : route_t :=
  match last_index_of 46 method with
  | None | Some O => RInvalidMethod
  | Some r =>
    let i := firstn r method in
    let m := skipn (S r) method in
    if bytes_eqb i org_varlink_service then RBuiltin m
    else if registered reg i then RDispatch i m
    else RNoInterface i
  end.

Definition handlers := bytes -> bytes -> call -> hprog.    (* interface, method, call *)

(* what happened to one decoded call *)
Inductive disp :=
| DInvalidMethod | DBuiltin (m : bytes) | DNoInterface (i : bytes)
| DHandler (iface m : bytes).

Record entry := mkEntry { e_call : call; e_disp : disp; e_attempts : list attempt; e_err : bool }.

(* the raw-message reply used by Reply(&out) for the built-ins is already-encoded JSON *)
Definition builtin_prog (b0 : builtin_out) : hprog :=
  match b0 with
  | BReply params => Do (AReply false (PEnc params)) (fun r => Ret (is_error r))
  | BStd k arg => Do (AStdError k arg) (fun r => Ret (is_error r))
  end.

(* HandleMessage on a decoded call: (handler returned an error, write state, log entry) *)
Definition handle_call (reg : registry) (hs : handlers) (c : call) (w : wstate) : bool * wstate * entry :=
  let '(d, prog) :=
    match route reg (c_method c) with
    | RInvalidMethod => (DInvalidMethod, builtin_prog (BStd EInvalidParameter s_method))
    | RBuiltin m => (DBuiltin m, builtin_prog (builtin reg c m))
    | RNoInterface i => (DNoInterface i, builtin_prog (BStd EInterfaceNotFound i))
    | RDispatch i m => (DHandler i m, hs i m c)
    end in
  let '(e, w', atts) := run_hprog c prog w [] in
  (e, w', mkEntry c d atts e).

(* ================= connection loop ================= *)

Inductive close_reason :=
| CEof                 (* ReadBytes returned an error: end of stream (a partial frame is dropped) *)
| CDecode              (* the frame did not decode into a call *)
| CHandlerErr          (* the handler (or a built-in reply) returned an error *)
| CFuel.               (* model artefact, excluded by the theorems *)

Record conn_out := mkOut { o_written : bytes; o_log : list entry; o_closed : close_reason }.

(* request[:len(request)-1] *)
Definition strip_last (f : bytes) : bytes := firstn (length f - 1) f.

(* the loop over frames already cut from the stream (each still ends in NUL) *)
Fixpoint serve_frames (reg : registry) (hs : handlers) (frames : list bytes) (w : wstate) (log : list entry)
  : conn_out :=
  match frames with
  | [] => mkOut (w_out w) (rev log) CEof
  | f :: r =>
    match decode_call (strip_last f) with
    | None => mkOut (w_out w) (rev log) CDecode
    | Some c =>
      let '(e, w', en) := handle_call reg hs c w in
      if e then mkOut (w_out w') (rev (en :: log)) CHandlerErr
      else serve_frames reg hs r w' (en :: log)
    end
  end.

(* handleConnection: ReadBytes / HandleMessage until an error *)
Fixpoint serve_loop (fuel : nat) (cap : nat) (reg : registry) (hs : handlers) (c : rconn) (w : wstate)
                    (log : list entry) : conn_out :=
  match fuel with
  | O => mkOut (w_out w) (rev log) CFuel
  | S f =>
    match read_bytes cap 0 c with
    | None => mkOut (w_out w) (rev log) CFuel
    | Some (REof _, _) => mkOut (w_out w) (rev log) CEof
    | Some (RData fr, c') =>
      match decode_call (strip_last fr) with
      | None => mkOut (w_out w) (rev log) CDecode
      | Some cl =>
        let '(e, w', en) := handle_call reg hs cl w in
        if e then mkOut (w_out w') (rev (en :: log)) CHandlerErr
        else serve_loop f cap reg hs c' w' (en :: log)
      end
    end
  end.

Definition serve_conn (cap : nat) (reg : registry) (hs : handlers) (wl : option nat) (c : rconn) : conn_out :=
  serve_loop (S (length (stream_of c))) cap reg hs c (mkW [] wl) [].

(* specification: the same connection described on the byte stream alone *)
Definition spec_conn (reg : registry) (hs : handlers) (wl : option nat) (stream : bytes) : conn_out :=
  serve_frames reg hs (fst (split_frames 0 stream)) (mkW [] wl) [].

(* ================= N connections ================= *)

Inductive event := EvData (chunk : bytes) | EvEof.

Record cstate := mkCs {
  cs_pending : bytes;           (* bytes received and not yet consumed *)
  cs_w : wstate;
  cs_log : list entry;          (* reversed *)
  cs_closed : option close_reason }.

Definition cs_init (wl : option nat) : cstate := mkCs [] (mkW [] wl) [] None.

(* process every complete frame now available *)
Fixpoint drain (fuel : nat) (reg : registry) (hs : handlers) (s : cstate) : cstate :=
  match fuel with
  | O => s
  | S f =>
    match cs_closed s with
    | Some _ => s
    | None =>
      match cut_at 0 (cs_pending s) with
      | None => s
      | Some (fr, rest) =>
        match decode_call (strip_last fr) with
        | None => mkCs rest (cs_w s) (cs_log s) (Some CDecode)
        | Some cl =>
          let '(e, w', en) := handle_call reg hs cl (cs_w s) in
          if e then mkCs rest w' (en :: cs_log s) (Some CHandlerErr)
          else drain f reg hs (mkCs rest w' (en :: cs_log s) None)
        end
      end
    end
  end.

Definition step_conn (reg : registry) (hs : handlers) (s : cstate) (ev : event) : cstate :=
  match cs_closed s with
  | Some _ => s
  | None =>
    match ev with
    | EvData ch =>
      let s1 := mkCs (cs_pending s ++ ch) (cs_w s) (cs_log s) None in
      drain (S (length (cs_pending s1))) reg hs s1
    | EvEof => mkCs (cs_pending s) (cs_w s) (cs_log s) (Some CEof)
    end
  end.

Definition run_conn (reg : registry) (hs : handlers) (wl : option nat) (evs : list event) : cstate :=
  fold_left (step_conn reg hs) evs (cs_init wl).

(* the system: connection id -> state; every connection has its own handler strategy *)
Definition sysstate := list (nat * cstate).

Fixpoint sys_get (i : nat) (s : sysstate) : option cstate :=
  match s with
  | [] => None
  | (j, c) :: r => if Nat.eqb i j then Some c else sys_get i r
  end.
Fixpoint sys_set (i : nat) (c : cstate) (s : sysstate) : sysstate :=
  match s with
  | [] => [(i, c)]
  | (j, c') :: r => if Nat.eqb i j then (i, c) :: r else (j, c') :: sys_set i c r
  end.

Definition sys_step (reg : registry) (hs : nat -> handlers) (wl : nat -> option nat) (s : sysstate)
                    (ie : nat * event) : sysstate :=
  let '(i, ev) := ie in
  let c := match sys_get i s with Some c => c | None => cs_init (wl i) end in
  sys_set i (step_conn reg (hs i) c ev) s.

Definition run_system (reg : registry) (hs : nat -> handlers) (wl : nat -> option nat) (tr : list (nat * event)) : sysstate :=
  fold_left (sys_step reg hs wl) tr [].

Definition events_of (i : nat) (tr : list (nat * event)) : list event :=
  map snd (filter (fun ie => Nat.eqb (fst ie) i) tr).
