(* Model/Wire.v — NUL framing and the buffered reader of
   varlink/internal/ctxio/conn.go (bufio.Reader over a net.Conn), as used by
   the service loop (ReadBytes), the client (ReadBytes) and upgraded
   connections (raw Read).

   The connection is a list of non-empty chunks still to arrive (what each
   conn.Read can return at most), followed by end of stream.  The reader is
   bufio's: a buffer of capacity [cap] (4096 in Go; every theorem holds for any
   cap >= 1); ReadBytes = ReadSlice + collectFragments; Read = bufio.Reader.Read
   (serves the buffer first; with an empty buffer one conn.Read, directly into
   the caller's slice when it is at least as large as the buffer).

   No proofs in this file. *)
From VL Require Import Bytes.
Open Scope N_scope.

Definition frame (m : bytes) : bytes := m ++ [0].

Record rconn := mkConn { rbuf : bytes; chunks : list bytes }.

Definition stream_of (c : rconn) : bytes := rbuf c ++ concat_bytes (chunks c).
Definition chunks_ok (c : rconn) : Prop := Forall (fun ch => ch <> []) (chunks c).

Inductive rres :=
| RData (d : bytes)          (* err == nil *)
| REof (partial : bytes).    (* data (possibly empty) together with io.EOF *)
Definition data_of (r : rres) : bytes := match r with RData d => d | REof d => d end.

(* one conn.Read of at most k bytes: takes from the head chunk only *)
Definition conn_read (k : nat) (chs : list bytes) : option (bytes * list bytes) :=
  match chs with
  | [] => None                                   (* io.EOF *)
  | ch :: r =>
    let taken := firstn k ch in
    match skipn k ch with
    | [] => Some (taken, r)
    | lft => Some (taken, lft :: r)
    end
  end.

(* bufio.Reader.fill: read once into the free space of the buffer *)
Definition fill (cap : nat) (c : rconn) : option rconn :=
  match conn_read (cap - length (rbuf c)) (chunks c) with
  | None => None
  | Some (taken, chs) => Some (mkConn (rbuf c ++ taken) chs)
  end.

(* split at the first occurrence of delim, delimiter included in the first part *)
Fixpoint cut_at (delim : byte) (s : bytes) : option (bytes * bytes) :=
  match s with
  | [] => None
  | x :: r => if x =? delim then Some ([x], r)
              else match cut_at delim r with
                   | Some (a, rest) => Some (x :: a, rest)
                   | None => None
                   end
  end.

(* bufio.Reader.ReadBytes(delim); frags = full buffers already set aside.
   None = out of fuel. *)
Fixpoint read_bytes_f (fuel : nat) (cap : nat) (delim : byte) (frags : bytes) (c : rconn)
  : option (rres * rconn) :=
  match fuel with
  | O => None
  | S f =>
    match cut_at delim (rbuf c) with
    | Some (a, rest) => Some (RData (frags ++ a), mkConn rest (chunks c))
    | None =>
      if (cap <=? length (rbuf c))%nat
      then read_bytes_f f cap delim (frags ++ rbuf c) (mkConn [] (chunks c))   (* ErrBufferFull: set aside *)
      else match fill cap c with
           | None => Some (REof (frags ++ rbuf c), mkConn [] (chunks c))        (* EOF: return what we have *)
           | Some c' => read_bytes_f f cap delim frags c'
           end
    end
  end.

Definition pending (c : rconn) : nat := length (concat_bytes (chunks c)).

Definition read_bytes (cap : nat) (delim : byte) (c : rconn) : option (rres * rconn) :=
  read_bytes_f (2 * (length (rbuf c) + pending c) + 3) cap delim [] c.

(* bufio.Reader.Read(p) with len(p) = n, n > 0 *)
Definition read_raw (cap : nat) (n : nat) (c : rconn) : rres * rconn :=
  match rbuf c with
  | _ :: _ => (RData (firstn n (rbuf c)), mkConn (skipn n (rbuf c)) (chunks c))
  | [] =>
    if (cap <=? n)%nat then
      (* large read: straight into the caller's slice *)
      match conn_read n (chunks c) with
      | None => (REof [], c)
      | Some (taken, chs) => (RData taken, mkConn [] chs)
      end
    else
      match conn_read cap (chunks c) with
      | None => (REof [], c)
      | Some (taken, chs) => (RData (firstn n taken), mkConn (skipn n taken) chs)
      end
  end.

(* the pinned (pre-fix) ctxio.Conn.Read: c.conn.Read(buf), which bypasses the bufio buffer.
   Kept to state that the stream property is false for it (C18_refuted_for_unbuffered_read). *)
Definition read_raw_unbuffered (n : nat) (c : rconn) : rres * rconn :=
  match conn_read n (chunks c) with
  | None => (REof [], c)
  | Some (taken, chs) => (RData taken, mkConn (rbuf c) chs)
  end.

Inductive rop := OpReadBytes (delim : byte) | OpRead (n : nat).

Definition run_op (cap : nat) (o : rop) (c : rconn) : option (rres * rconn) :=
  match o with
  | OpReadBytes d => read_bytes cap d c
  | OpRead n => Some (read_raw cap n c)
  end.

Fixpoint run_ops (cap : nat) (ops : list rop) (c : rconn) : option (list rres * rconn) :=
  match ops with
  | [] => Some ([], c)
  | o :: r =>
    match run_op cap o c with
    | None => None
    | Some (x, c') =>
      match run_ops cap r c' with
      | None => None
      | Some (xs, c'') => Some (x :: xs, c'')
      end
    end
  end.

(* read frames until end of stream: the list of complete frames and the trailing partial data *)
Fixpoint read_all_f (fuel : nat) (cap : nat) (delim : byte) (c : rconn) : option (list bytes * bytes) :=
  match fuel with
  | O => None
  | S f =>
    match read_bytes cap delim c with
    | None => None
    | Some (RData d, c') =>
      match read_all_f f cap delim c' with
      | Some (fs, tail) => Some (d :: fs, tail)
      | None => None
      end
    | Some (REof d, _) => Some ([], d)
    end
  end.
Definition read_all (cap : nat) (delim : byte) (c : rconn) : option (list bytes * bytes) :=
  read_all_f (S (length (stream_of c))) cap delim c.

(* specification side: split a stream at every delimiter *)
Fixpoint split_frames_f (fuel : nat) (delim : byte) (s : bytes) : list bytes * bytes :=
  match fuel with
  | O => ([], s)
  | S f =>
    match cut_at delim s with
    | Some (a, rest) => let (fs, tail) := split_frames_f f delim rest in (a :: fs, tail)
    | None => ([], s)
    end
  end.
Definition split_frames (delim : byte) (s : bytes) := split_frames_f (S (length s)) delim s.

(* ---------- canonical rendering for the correspondence check ---------- *)
From VL Require Import IdlDump.
Definition dash_hex (s : bytes) : bytes := match s with [] => [45] | _ => hex s end.
Definition dump_rres (r : rres) : bytes :=
  match r with RData d => 68 :: dash_hex d | REof d => 69 :: dash_hex d end.
Definition wire_case (cap : nat) (chs : list bytes) (ops : list rop) : bytes :=
  match run_ops cap ops (mkConn [] chs) with
  | None => [70; 85; 69; 76]
  | Some (rs, _) => sep_by [32] (map dump_rres rs)
  end.
