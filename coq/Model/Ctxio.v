(* Model/Ctxio.v — one context-aware I/O operation of varlink/internal/ctxio
   (Conn.Write / Conn.Read / Conn.ReadBytes share this shape):

     dl, _ := ctx.Deadline(); conn.SetDeadline(dl)
     ch := make(chan ret, 1); go func() { ch <- blockingOp() }()
     select {
     case <-ctx.Done(): conn.SetDeadline(aLongTimeAgo); <-ch; conn.SetDeadline(zero); return ctx.Err()
     case r := <-ch:    return r
     }

   Threads: the caller, the helper goroutine, and the environment (cancellation,
   expiry of the context's deadline, the peer sending or closing).  The
   transport either honours deadlines (sockets, net.Pipe, and the bridge's
   pipes after the fix: commit) or ignores them (the pre-fix PipeCon).
   No proofs in this file. *)
From VL Require Import Bytes.
Open Scope nat_scope.

Inductive dline := DNone | DFuture | DPast.          (* the connection's deadline for this direction *)

Inductive hres := HData (n : nat) | HTimeout | HEof.  (* what the blocking call returned *)
Inductive hst :=
| HNot                      (* not started *)
| HBlocked                  (* inside the blocking call *)
| HDone (r : hres)          (* the call returned; about to send on the channel *)
| HGone.                    (* sent its result and terminated *)

Inductive cres := CData (n : nat) | CCtxErr | CTimeout | CEof.
Inductive cpc :=
| PStart                    (* about to set the deadline from the context *)
| PSpawn                    (* about to start the helper *)
| PSelect                   (* in the select *)
| PForce                    (* ctx.Done() won: about to set the deadline into the past *)
| PJoin                     (* <-ch *)
| PReset                    (* about to clear the deadline *)
| PRet (r : cres).          (* returned *)

Record cst := mkC {
  pc : cpc;
  helper : hst;
  chan : option hres;       (* capacity 1 *)
  deadline : dline;
  has_deadline : bool;      (* the context carries a deadline *)
  expired : bool;           (* ... and it has passed *)
  cancelled : bool;         (* cancel() was called *)
  avail : nat;              (* bytes the peer has sent and nobody consumed (reads) / room the peer has made (writes) *)
  peer_closed : bool;
  honours : bool;           (* the transport implements deadlines *)
  delivered : nat;          (* bytes returned to the caller by this operation *)
  discarded : nat;          (* bytes the helper consumed but the cancelled caller threw away *)
  sent : nat }.             (* bytes the peer has sent in total *)

(* an arbitrary deadline may have been left on the connection by an earlier operation *)
Definition c_init (left_over : dline) (hasdl exp canc hon : bool) (av : nat) : cst :=
  mkC PStart HNot None left_over hasdl exp canc av false hon 0 0 av.

Definition done_ctx (s : cst) : bool := cancelled s || (has_deadline s && expired s).

Inductive clabel :=
| LCaller                   (* next step of the caller (at PSelect: the ctx.Done() branch) *)
| LCallerRecv               (* at PSelect / PJoin: receive from the channel *)
| LHelperData               (* the blocking call completes with the available data *)
| LHelperTimeout            (* ... fails because the deadline is in the past *)
| LHelperEof                (* ... fails because the peer closed *)
| LHelperSend               (* ch <- result; the goroutine ends *)
| LCancel | LExpire | LPeerSend (n : nat) | LPeerClose.

Definition upd (s : cst) (p : cpc) (h : hst) (c : option hres) (d : dline) : cst :=
  mkC p h c d (has_deadline s) (expired s) (cancelled s) (avail s) (peer_closed s) (honours s) (delivered s) (discarded s) (sent s).

Definition to_cres (r : hres) : cres :=
  match r with HData n => CData n | HTimeout => CTimeout | HEof => CEof end.

Definition cstep (s : cst) (l : clabel) : option cst :=
  match l with
  | LCaller =>
    match pc s with
    | PStart =>
      let d := if has_deadline s then (if expired s then DPast else DFuture) else DNone in
      Some (upd s PSpawn (helper s) (chan s) d)
    | PSpawn => Some (upd s PSelect HBlocked (chan s) (deadline s))
    | PSelect => if done_ctx s then Some (upd s PForce (helper s) (chan s) (deadline s)) else None
    | PForce => Some (upd s PJoin (helper s) (chan s) DPast)
    | PReset => Some (upd s (PRet CCtxErr) (helper s) (chan s) DNone)
    | _ => None
    end
  | LCallerRecv =>
    match pc s, chan s with
    | PSelect, Some r =>
      Some (mkC (PRet (to_cres r)) (helper s) None (deadline s) (has_deadline s) (expired s) (cancelled s) (avail s) (peer_closed s) (honours s)
                (delivered s + match r with HData n => n | _ => 0 end) (discarded s) (sent s))
    | PJoin, Some r =>
      Some (mkC PReset (helper s) None (deadline s) (has_deadline s) (expired s) (cancelled s) (avail s) (peer_closed s) (honours s)
                (delivered s) (discarded s + match r with HData n => n | _ => 0 end) (sent s))
    | _, _ => None
    end
  | LHelperData =>
    match helper s with
    | HBlocked => if Nat.eqb (avail s) 0 then None
                  else Some (mkC (pc s) (HDone (HData (avail s))) (chan s) (deadline s) (has_deadline s) (expired s) (cancelled s) 0 (peer_closed s)
                                 (honours s) (delivered s) (discarded s) (sent s))
    | _ => None
    end
  | LHelperTimeout =>
    match helper s, deadline s with
    | HBlocked, DPast => if honours s then Some (upd s (pc s) (HDone HTimeout) (chan s) (deadline s)) else None
    | _, _ => None
    end
  | LHelperEof =>
    match helper s with
    | HBlocked => if peer_closed s && Nat.eqb (avail s) 0 then Some (upd s (pc s) (HDone HEof) (chan s) (deadline s)) else None
    | _ => None
    end
  | LHelperSend =>
    match helper s, chan s with
    | HDone r, None => Some (upd s (pc s) HGone (Some r) (deadline s))
    | _, _ => None
    end
  | LCancel => Some (mkC (pc s) (helper s) (chan s) (deadline s) (has_deadline s) (expired s) true (avail s) (peer_closed s) (honours s)
                         (delivered s) (discarded s) (sent s))
  | LExpire =>
    if has_deadline s
    then Some (mkC (pc s) (helper s) (chan s) (match deadline s with DFuture => DPast | d => d end) true true (cancelled s) (avail s) (peer_closed s)
                   (honours s) (delivered s) (discarded s) (sent s))
    else None
  | LPeerSend n =>
    if peer_closed s then None
    else Some (mkC (pc s) (helper s) (chan s) (deadline s) (has_deadline s) (expired s) (cancelled s) (avail s + n) (peer_closed s) (honours s)
                   (delivered s) (discarded s) (sent s + n))
  | LPeerClose => Some (mkC (pc s) (helper s) (chan s) (deadline s) (has_deadline s) (expired s) (cancelled s) (avail s) true (honours s)
                            (delivered s) (discarded s) (sent s))
  end.

Definition internal (l : clabel) : bool :=
  match l with LCaller | LCallerRecv | LHelperData | LHelperTimeout | LHelperEof | LHelperSend => true | _ => false end.

Fixpoint crun (s : cst) (ls : list clabel) : option cst :=
  match ls with [] => Some s | l :: r => match cstep s l with Some s' => crun s' r | None => None end end.

Inductive creach (s0 : cst) : cst -> Prop :=
| cr_init : creach s0 s0
| cr_step : forall s l s', creach s0 s -> cstep s l = Some s' -> creach s0 s'.

(* bytes held by the helper or the channel *)
Definition in_flight (s : cst) : nat :=
  (match helper s with HDone (HData n) => n | _ => 0 end) + (match chan s with Some (HData n) => n | _ => 0 end).

(* ---- exploration for the correspondence check: every result the caller can return when the
   environment does nothing more (internal steps only), by exhaustive search of the finite graph ---- *)
Definition internal_labels : list clabel := [LCaller; LCallerRecv; LHelperData; LHelperTimeout; LHelperEof; LHelperSend].

Fixpoint outcomes (fuel : nat) (s : cst) : list (option cres) :=
  match fuel with
  | O => [None]
  | S f =>
    match pc s with
    | PRet r => [Some r]
    | _ =>
      let nexts := flat_map (fun l => match cstep s l with Some s' => [s'] | None => [] end) internal_labels in
      match nexts with
      | [] => [None]                      (* blocked: nothing can move without the environment *)
      | _ => flat_map (outcomes f) nexts
      end
    end
  end.
