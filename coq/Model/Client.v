(* Model/Client.v — the client side of varlink/go (connection.go, resolver.go):
   Send (flag rules, call encoding), the receive closure, DispatchError, Call,
   GetInfo, GetInterfaceDescription, the Resolver helpers.
   No proofs in this file. *)
From VL Require Import Bytes Lit Json Wire Service.
Open Scope N_scope.

Definition fl_more (f : N) : bool := N.testbit f 0.
Definition fl_oneway (f : N) : bool := N.testbit f 1.
Definition fl_continues (f : N) : bool := N.testbit f 2.
Definition fl_upgrade (f : N) : bool := N.testbit f 3.

Inductive send_res :=
| SRefused (what : bytes)       (* org.varlink.InvalidParameter, nothing written *)
| SMarshalErr                   (* json.Marshal failed, nothing written *)
| SSent (msg : bytes).          (* the bytes written, NUL included *)

(* json.Marshal(call{Method, Parameters, More, Oneway, Upgrade}) *)
Definition encode_call (method : bytes) (params : option bytes) (more oneway upgrade : bool) : bytes :=
  [123] ++ join_members
    ([member s_method (encode_string method)]
     ++ (match params with Some p => [member s_parameters p] | None => [] end)
     ++ (if more then [member s_more lit_true] else [])
     ++ (if oneway then [member s_oneway lit_true] else [])
     ++ (if upgrade then [member s_upgrade lit_true] else []))
  ++ [125].

Definition client_send (flags : N) (method : bytes) (p : pval) : send_res :=
  if fl_more flags && fl_oneway flags then SRefused s_oneway
  else if fl_more flags && fl_upgrade flags then SRefused s_more
  else match enc_params p with
       | None => SMarshalErr
       | Some ps => SSent (frame (encode_call method ps (fl_more flags) (fl_oneway flags) (fl_upgrade flags)))
       end.

Definition reply_schema : list (bytes * fkind) :=
  [(s_parameters, KRaw); (s_continues, KBool); (s_error, KString)].

Inductive recv_res :=
| RvEOF                                   (* io.ErrUnexpectedEOF: the stream ended before the frame's NUL *)
| RvDecodeErr                             (* the frame is not valid JSON / not an object of the reply's shape *)
| RvStdError (k : stdkind) (arg : bytes)  (* one of the four typed org.varlink.service errors *)
| RvError (name : bytes) (params : option bytes)
| RvReply (params : option bytes) (continues : bool)
| RvFuel.

Definition std_of_name (name : bytes) : option stdkind :=
  if bytes_eqb name err_InterfaceNotFound then Some EInterfaceNotFound
  else if bytes_eqb name err_MethodNotFound then Some EMethodNotFound
  else if bytes_eqb name err_MethodNotImplemented then Some EMethodNotImplemented
  else if bytes_eqb name err_InvalidParameter then Some EInvalidParameter
  else None.

(* Error.DispatchError *)
Definition dispatch_error (name : bytes) (params : option bytes) : recv_res :=
  match std_of_name name with
  | None => RvError name params
  | Some k =>
    match params with
    | None => RvStdError k []
    | Some raw =>
      match decode_struct [(std_field k, KString)] raw with
      | Some [FString a] => RvStdError k a
      | _ => RvError name params
      end
    end
  end.

(* the receive closure: one ReadBytes, one Unmarshal *)
Definition client_receive (cap : nat) (c : rconn) : recv_res * rconn :=
  match read_bytes cap 0 c with
  | None => (RvFuel, c)
  | Some (REof _, c') => (RvEOF, c')
  | Some (RData fr, c') =>
    match decode_struct reply_schema (strip_last fr) with
    | Some [FRaw p; FBool cont; FString e] =>
      match e with
      | [] => (RvReply p cont, c')
      | _ => (dispatch_error e p, c')
      end
    | _ => (RvDecodeErr, c')
    end
  end.

(* Connection.Call passes &parameters: a nil parameter is written as null *)
Definition call_params (p : pval) : pval := match p with PNone => PJson JNull | _ => p end.

(* ---- typed helpers: decoding the reply parameters into the helper's struct ---- *)

Definition info_schema : list (bytes * fkind) :=
  [(s_vendor, KString); (s_product, KString); (s_version, KString); (s_url, KString); (s_interfaces, KStrList)].
Definition descr_schema : list (bytes * fkind) := [(s_description, KString)].
Definition address_schema : list (bytes * fkind) := [(s_address, KString)].
(* Resolver.GetInfo's reply struct has no tags: Go matches the field names Vendor, Product, Version, URL, Interfaces *)
Definition resolver_info_schema : list (bytes * fkind) :=
  [([86;101;110;100;111;114], KString); ([80;114;111;100;117;99;116], KString); ([86;101;114;115;105;111;110], KString);
   ([85;82;76], KString); ([73;110;116;101;114;102;97;99;101;115], KStrList)].

(* json.Unmarshal of the reply parameters into out, with the error ignored: the fields as far as they were decoded *)
Definition fill (sch : list (bytes * fkind)) (params : option bytes) : list fval :=
  let zeros := map (fun x => zero_of (snd x)) sch in
  match params with
  | None => zeros
  | Some raw => match decode_struct_full sch raw with Some (vals, _) => vals | None => zeros end
  end.

Inductive helper_res :=
| HErr (r : recv_res)             (* the error the helper returns *)
| HOk (fields : list fval).

Definition helper_of (sch : list (bytes * fkind)) (r : recv_res) : helper_res :=
  match r with
  | RvReply p _ => HOk (fill sch p)
  | _ => HErr r
  end.

Definition get_info_request : send_res := client_send 0 (org_varlink_service ++ [46] ++ m_GetInfo) (call_params PNone).
Definition get_descr_request (name : bytes) : send_res :=
  client_send 0 (org_varlink_service ++ [46] ++ m_GetInterfaceDescription)
              (PEnc ([123] ++ member s_interface (encode_string name) ++ [125])).
