(* Model/JsonDump.v — canonical text for JSON value trees (shared with the Go
   harness) and Go's map key order.
     N | T | F | D hex ; | S hex ; | [ v , v ] | { hex : v , hex : v }        *)
From VL Require Import Bytes IdlDump Json.
Open Scope N_scope.

Fixpoint dump_jvalue (v : jvalue) : bytes :=
  match v with
  | JNull => [78]
  | JBool true => [84]
  | JBool false => [70]
  | JNum t => 68 :: hex t ++ [59]
  | JStr s => 83 :: hex s ++ [59]
  | JArr l => [91] ++ sep_by [44] (map dump_jvalue l) ++ [93]
  | JObj m => [123] ++ sep_by [44] ((fix dm (l : list (bytes * jvalue)) : list bytes :=
                                       match l with
                                       | [] => []
                                       | (k, x) :: r => (hex k ++ [58] ++ dump_jvalue x) :: dm r
                                       end) m) ++ [125]
  end.

(* byte-wise lexicographic order (Go sorts map keys as strings) *)
Fixpoint bytes_ltb (x y : bytes) : bool :=
  match x, y with
  | [], [] => false
  | [], _ :: _ => true
  | _ :: _, [] => false
  | a :: x', c :: y' => if a <? c then true else if c <? a then false else bytes_ltb x' y'
  end.

Fixpoint insert_member (k : bytes) (v : jvalue) (l : list (bytes * jvalue)) : list (bytes * jvalue) :=
  match l with
  | [] => [(k, v)]
  | (k', v') :: r => if bytes_ltb k k' then (k, v) :: l else (k', v') :: insert_member k v r
  end.
Definition sort_members (l : list (bytes * jvalue)) : list (bytes * jvalue) :=
  fold_right (fun kv acc => insert_member (fst kv) (snd kv) acc) [] l.

Definition dhex (s : bytes) : bytes := match s with [] => [45] | _ => hex s end.
(* ERR or hex *)
Definition opt_hex (o : option bytes) : bytes :=
  match o with None => [69; 82; 82] | Some x => dhex x end.

Definition json_enc_case (v : jvalue) : bytes := dhex (encode_value v).
Definition json_parse_case (s : bytes) : bytes :=
  match parse s with None => [69; 82; 82] | Some v => dump_jvalue v end.
Definition json_compact_case (s : bytes) : bytes := opt_hex (compact_raw s).

Definition dump_fval (v : fval) : bytes :=
  match v with
  | FString s => 83 :: dhex s
  | FBool true => [84]
  | FBool false => [70]
  | FRaw None => [78]
  | FRaw (Some r) => 82 :: dhex r
  | FStrList None => [78]
  | FStrList (Some l) => [91] ++ sep_by [44] (map dhex l) ++ [93]
  end.
Definition json_struct_case (sch : list (bytes * fkind)) (s : bytes) : bytes :=
  match decode_struct sch s with
  | None => [69; 82; 82]
  | Some vals => sep_by [32] (map dump_fval vals)
  end.
