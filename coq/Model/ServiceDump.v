(* Model/ServiceDump.v — canonical text of a decoded call (same format as h_json call / driver call-decode). *)
From VL Require Import Bytes IdlDump Json JsonDump Service.
Open Scope N_scope.
Definition tfb (x : bool) : bytes := if x then [84] else [70].
Definition call_case (frame : bytes) : bytes :=
  match decode_call frame with
  | None => [69; 82; 82]
  | Some c =>
    83 :: dhex (c_method c) ++ [32]
       ++ (match c_params c with None => [78] | Some r => 82 :: dhex r end) ++ [32]
       ++ tfb (c_more c) ++ [32] ++ tfb (c_oneway c) ++ [32] ++ tfb (c_upgrade c)
  end.
