(* Model/LockFacts.v — the second table the translator harness/cmd/goaccess regenerates from service.go on every run: every call
   that runs a handler or may block on a peer (VarlinkDispatch, the Reply helpers, sendMessage, connection Read/Write/ReadBytes, Accept,
   WaitGroup.Wait, HandleMessage, handleConnection), with the state of the service mutex at the call site (Lock and RLock alike).

   Model/Service.v lets the connections of a service share nothing but the registry (run_system); in the code they also share the
   service mutex.  They stay independent as long as the mutex is never held across one of these calls: a handler that waits, or a peer
   that does not read its replies, then holds up nobody else.  No proofs in this file. *)
From VL Require Import Bytes Access.

Definition callouts_ok (l : list access) : bool := forallb (fun a => negb (a_locked a)) l.

(* the dispatch itself must be among the calls seen (an empty table would satisfy the rule for the wrong reason) *)
Definition f_VarlinkDispatch : bytes := [86; 97; 114; 108; 105; 110; 107; 68; 105; 115; 112; 97; 116; 99; 104]%N.
Definition dispatch_seen (l : list access) : bool := existsb (fun a => bytes_eqb (a_field a) f_VarlinkDispatch) l.

Definition lock_facts_ok (l : list access) : bool := callouts_ok l && dispatch_seen l.

(* the functions that run on a connection's own goroutine (one per connection, all at the same time): whatever they WRITE into the
   service object they must write under the mutex - an unlocked cache or counter there is shared by all connections *)
Definition per_connection_fns : list bytes :=
  [ [72;97;110;100;108;101;77;101;115;115;97;103;101];                                       (* HandleMessage *)
    [104;97;110;100;108;101;67;111;110;110;101;99;116;105;111;110];                          (* handleConnection *)
    [103;101;116;73;110;102;111];                                                            (* getInfo *)
    [103;101;116;73;110;116;101;114;102;97;99;101;68;101;115;99;114;105;112;116;105;111;110]; (* getInterfaceDescription *)
    [111;114;103;118;97;114;108;105;110;107;115;101;114;118;105;99;101;68;105;115;112;97;116;99;104] ]%N. (* orgvarlinkserviceDispatch *)

Definition handler_write (a : access) : bool :=
  existsb (bytes_eqb (a_fn a)) per_connection_fns && (match a_kind a with AW => true | _ => false end).

Definition handler_writes_ok (table : list access) : bool :=
  forallb (fun a => negb (handler_write a) || a_locked a) table.
