(* Model/LockFacts.v — the second table the translator harness/cmd/goaccess regenerates from service.go on every run: every call
   that runs a handler or may block on a peer (VarlinkDispatch, the Reply helpers, sendMessage, connection Read/Write/ReadBytes, Accept,
   WaitGroup.Wait, HandleMessage, handleConnection), with the state of the service mutex at the call site (Lock and RLock alike).

   Model/Service.v lets the connections of a service share nothing but the registry (run_system); in the code they also share the
   service mutex.  They stay independent as long as the mutex is never held across one of these calls: a handler that waits, or a peer
   that does not read its replies, then holds up nobody else.  No proofs in this file. *)
From VL Require Import Bytes Access.

Definition callouts_ok (l : list access) : bool := forallb (fun a => negb (a_locked a)) l.

(* the dispatch itself must be among the calls seen (an empty table would satisfy the rule for the wrong reason) *)
Definition f_VarlinkDispatch : bytes := [86; 97; 114; 108; 105; 110; 107; 68; 105; 115; 112; 97; 116; 99; 104]%N.
Definition dispatch_seen (l : list access) : bool := existsb (fun a => bytes_eqb (a_field a) f_VarlinkDispatch) l.

Definition lock_facts_ok (l : list access) : bool := callouts_ok l && dispatch_seen l.
