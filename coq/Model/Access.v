(* Model/Access.v — the shared-state access discipline of varlink.Service (C16).

   A table of accesses (function, field, read/write, mutex held?) is extracted
   from /repo's sources on every run by harness/cmd/goaccess (gen/GenAccess.v).
   [table_ok] is the decidable lock discipline the race-freedom argument needs:

   * running, conncounter: every access under the mutex;
   * listener: every write under the mutex; reads under the mutex, except in
     refreshTimeout, which runs on the serving goroutine — the only writers are
     teardown (same goroutine) and setListener (reached through Bind only, and
     Bind refuses under the mutex while the service is running);
   * interfaces, names, descriptions: written only by RegisterInterface, under
     the mutex, in a critical section that also reads running and conncounter
     (the guard that orders every write against the handlers' unlocked reads:
     Lifecycle invariant I1 shows no handler is live when running = false and
     conncounter = 0, and a handler starts only after the locked increment);
   * protocol, address: touched by parseAddress / setListener / teardown only,
     i.e. inside Bind after its locked check or at the end of a serving call;
   * identity strings and the fields of ctxio.Conn are never written by a method.
   No proofs in this file. *)
From VL Require Import Bytes.
From Coq Require Import String.
Open Scope N_scope.

Inductive akind := AR | AW.
Record access := mkAcc { a_fn : bytes; a_field : bytes; a_kind : akind; a_locked : bool }.

Local Open Scope string_scope.
Definition f_running : bytes := Eval compute in b "running".
Definition f_conncounter : bytes := Eval compute in b "conncounter".
Definition f_listener : bytes := Eval compute in b "listener".
Definition f_interfaces : bytes := Eval compute in b "interfaces".
Definition f_names : bytes := Eval compute in b "names".
Definition f_descriptions : bytes := Eval compute in b "descriptions".
Definition f_protocol : bytes := Eval compute in b "protocol".
Definition f_address : bytes := Eval compute in b "address".
Definition f_vendor : bytes := Eval compute in b "vendor".
Definition f_product : bytes := Eval compute in b "product".
Definition f_version : bytes := Eval compute in b "version".
Definition f_url : bytes := Eval compute in b "url".
Definition f_conn : bytes := Eval compute in b "conn".
Definition f_reader : bytes := Eval compute in b "reader".
Definition fn_refreshTimeout : bytes := Eval compute in b "refreshTimeout".
Definition fn_RegisterInterface : bytes := Eval compute in b "RegisterInterface".
Definition fn_parseAddress : bytes := Eval compute in b "parseAddress".
Definition fn_setListener : bytes := Eval compute in b "setListener".
Definition fn_teardown : bytes := Eval compute in b "teardown".
Local Close Scope string_scope.

Definition is_write (a : access) : bool := match a_kind a with AW => true | AR => false end.
Definition mem (x : bytes) (l : list bytes) : bool := existsb (bytes_eqb x) l.

Definition counters : list bytes := [f_running; f_conncounter].
Definition registry_fields : list bytes := [f_interfaces; f_names; f_descriptions].
Definition addr_fields : list bytes := [f_protocol; f_address].
Definition const_fields : list bytes := [f_vendor; f_product; f_version; f_url; f_conn; f_reader].
Definition data_fields : list bytes := counters ++ [f_listener] ++ registry_fields ++ addr_fields ++ const_fields.

Definition rule (a : access) : bool :=
  let f := a_field a in
  if mem f counters then a_locked a
  else if bytes_eqb f f_listener then
    (if is_write a then a_locked a else a_locked a || bytes_eqb (a_fn a) fn_refreshTimeout)
  else if mem f registry_fields then
    (if is_write a then a_locked a && bytes_eqb (a_fn a) fn_RegisterInterface else true)
  else if mem f addr_fields then
    mem (a_fn a) [fn_parseAddress; fn_setListener; fn_teardown]
  else if mem f const_fields then negb (is_write a)
  else true.      (* not a data field: a method reference *)

(* RegisterInterface's critical section looks at both the flag and the counter *)
Definition guard_present (t : list access) : bool :=
  existsb (fun a => bytes_eqb (a_fn a) fn_RegisterInterface && bytes_eqb (a_field a) f_running && a_locked a) t
  && existsb (fun a => bytes_eqb (a_fn a) fn_RegisterInterface && bytes_eqb (a_field a) f_conncounter && a_locked a) t.

Definition table_ok (t : list access) : bool := forallb rule t && guard_present t.

(* two accesses conflict when they touch the same data field and one of them writes *)
Definition conflict (a c : access) : bool :=
  bytes_eqb (a_field a) (a_field c) && mem (a_field a) data_fields && (is_write a || is_write c).

(* the pairs the lock alone does not order, each with its protocol justification (see the header) *)
Definition protocol_ordered (a c : access) : bool :=
  let f := a_field a in
  (bytes_eqb f f_listener && (bytes_eqb (a_fn a) fn_refreshTimeout || bytes_eqb (a_fn c) fn_refreshTimeout))
  || mem f registry_fields
  || mem f addr_fields.
