(* Model/Gen.v — executable model of cmd/varlink-go-interface-generator/main.go
   (generateTemplate), statement by statement, up to but excluding the call of
   format.Source: `text` is ret_string (b.String()).

   The Go tree has Type{Kind, ElementType, Alias, Fields}; the Coq tree is `ty`.
   t.Fields is the field list of a TStruct, the (typeless) names of a TEnum and
   empty otherwise.  The generator reads m.In.Fields / m.Out.Fields of EVERY
   method and passes each field's Type to writeType; for an enum the field
   types are nil and writeType dereferences nil: the program panics (GPanic).
   That is the only way generateTemplate can crash before format.Source, and
   it happens in the very first loop over a method's fields, so it is decided
   up front by `gen_panics`.

   No proofs in this file. *)
From Coq Require Import String.
From VL Require Import Bytes Lit Idl.
Open Scope N_scope.

Inductive gen_res := GOk (pkgname : bytes) (text : bytes) | GParseErr | GPanic.

Definition NL : bytes := [10].
Definition TAB : bytes := [9].
Definition QUOTE : bytes := [34].
Definition BQ : bytes := [96].

Local Notation cat := concat_bytes.

(* ---------- string primitives ---------- *)

(* strings.Contains(hay, needle) *)
Fixpoint contains (needle hay : bytes) : bool :=
  if is_prefix needle hay then true
  else match hay with [] => false | _ :: r => contains needle r end.

(* strings.TrimRight(s, "\n") *)
Fixpoint trim_right_lf (s : bytes) : bytes :=
  match s with
  | [] => []
  | x :: r => match trim_right_lf r with
              | [] => if x =? 10 then [] else [x]
              | r' => x :: r'
              end
  end.

Definition to_lower_byte (c : N) : N := if is_upper c then c + 32 else c.
(* strings.ToLower on ASCII text *)
Definition to_lower (s : bytes) : bytes := map to_lower_byte s.

(* strings.Title on a field name [a-z][A-Za-z0-9_]*: letters, digits and '_'
   do not separate words, so only the first byte is upper-cased *)
Definition title (s : bytes) : bytes :=
  match s with
  | c :: r => (if is_lower c then c - 32 else c) :: r
  | [] => []
  end.

(* strings.ToLower(strings.NewReplacer(".", "", "-", "").Replace(name)) *)
Definition pkgname_of (name : bytes) : bytes :=
  to_lower (filter (fun c => negb ((c =? 46) || (c =? 45))) name).

(* strings.Join *)
Fixpoint join (sep : bytes) (l : list bytes) : bytes :=
  match l with
  | [] => []
  | [x] => x
  | x :: r => x ++ sep ++ join sep r
  end.

Fixpoint tabs (n : nat) : bytes :=
  match n with O => [] | S k => 9 :: tabs k end.

(* strings.Replace(s, "\n", "\n// ", -1) *)
Fixpoint doc_lines (s : bytes) : bytes :=
  match s with
  | [] => []
  | x :: r => if x =? 10 then [10; 47; 47; 32] ++ doc_lines r else x :: doc_lines r
  end.

Definition write_doc_string (s : bytes) : bytes :=
  match s with
  | [] => []
  | _ => cat [b "// "; doc_lines s; NL]
  end.

(* ---------- writeType / writeConversion ---------- *)

Fixpoint write_type (t : ty) (json : bool) (ident : nat) : bytes :=
  match t with
  | TBool => b "bool"
  | TInt => b "int64"
  | TFloat => b "float64"
  | TString => b "string"
  | TEnum _ => b "string"
  | TObject => b "json.RawMessage"
  | TArray e => b "[]" ++ write_type e json ident
  | TMap e => b "map[string]" ++ write_type e json ident
  | TMaybe e => b "*" ++ write_type e json ident
  | TAlias n => n
  | TStruct [] => b "struct{}"
  | TStruct fs =>
    cat [b "struct {"; NL;
         (fix fields (l : list (bytes * ty)) : bytes :=
            match l with
            | [] => []
            | (n, ft) :: r =>
              cat [tabs (S ident); title n; b " "; write_type ft json (S ident);
                   (if json
                    then cat [b " `json:"; QUOTE; n;
                              (if is_maybe ft then b ",omitempty" else []);
                              QUOTE; BQ]
                    else []);
                   NL; fields r]
            end) fs;
         tabs ident; b "}"]
  end.

(* needsConversion: struct, array, map, maybe *)
Definition needs_conversion (t : ty) : bool :=
  match t with
  | TStruct _ | TArray _ | TMap _ | TMaybe _ => true
  | _ => false
  end.

Definition write_conversion (t : ty) (json : bool) (ident : nat) (expr : bytes) : bytes :=
  if needs_conversion t then
    cat [(if is_maybe t then cat [b "("; write_type t json ident; b ")"]
          else write_type t json ident);
         b "("; expr; b ")"]
  else expr.

(* usesObject: the Go rendering of t mentions json.RawMessage.  The names of an
   enum are not inspected (Kind is neither struct nor a container). *)
Fixpoint uses_object (t : ty) : bool :=
  match t with
  | TObject => true
  | TArray e | TMap e | TMaybe e => uses_object e
  | TStruct fs =>
    (fix any (l : list (bytes * ty)) : bool :=
       match l with
       | [] => false
       | (_, ft) :: r => uses_object ft || any r
       end) fs
  | _ => false
  end.

(* t.Fields as far as the generator can use it without crashing: the typed
   fields of a struct; nothing for the other kinds (see gen_panics for enums) *)
Definition fields_of (t : ty) : list (bytes * ty) :=
  match t with TStruct fs => fs | _ => [] end.

(* errorFields, on the error's type after the nil -> empty struct defaulting *)
Definition error_fields (t : ty) : list (bytes * ty) := fields_of t.

(* for _, e := range midl.Errors { if e.Type == nil { e.Type = &idl.Type{Kind: idl.TypeStruct} } } *)
Definition error_type (o : option ty) : ty :=
  match o with Some t => t | None => TStruct [] end.

(* aliases[a.Name] = a.Type over midl.Aliases: the last declaration of a name wins *)
Definition lookup_alias (n : bytes) (ms : list member) : option ty :=
  fold_left (fun acc m => match m with
                          | MAlias n' _ t => if bytes_eqb n' n then Some t else acc
                          | _ => acc
                          end) ms None.

Fixpoint maybe_depth (t : ty) : nat :=
  match t with TMaybe e => S (maybe_depth e) | _ => O end.

(* errorType: [t] is the type to declare, [u] walks through optional markers and aliases,
   [seen] are the aliases visited.  Every step strips one marker of the current alias body
   or visits a new alias, so the fuel [error_type_fuel] is never exhausted. *)
Fixpoint peel_error (fuel : nat) (ms : list member) (seen : list bytes) (t u : ty) : ty :=
  match fuel with
  | O => t
  | S f =>
    match u with
    | TMaybe e => peel_error f ms seen e e
    | TAlias n =>
      if existsb (bytes_eqb n) seen then TStruct []
      else match lookup_alias n ms with
           | Some a => peel_error f ms (n :: seen) t a
           | None => t
           end
    | _ => t
    end
  end.

Definition alias_depths (ms : list member) : nat :=
  fold_right (fun m acc => match m with MAlias _ _ t => S (maybe_depth t) + acc | _ => acc end)%nat O ms.

Definition error_type_fuel (ms : list member) (t : ty) : nat := (S (S (maybe_depth t)) + alias_depths ms)%nat.

(* for _, e := range midl.Errors { if e.Type == nil {...} else { e.Type = errorType(aliases, e.Type) } } : the tree is
   rewritten before anything is written *)
Definition norm_member (ms : list member) (m : member) : member :=
  match m with
  | MError n doc (Some t) => MError n doc (Some (peel_error (error_type_fuel ms t) ms [] t t))
  | _ => m
  end.

Definition norm_errors (d : idl) : idl :=
  mkIdl (i_name d) (i_doc d) (i_descr d) (map (norm_member (i_members d)) (i_members d)).

(* a method parameter list that is an enum has fields whose Type is nil *)
Definition enum_fields (t : ty) : bool :=
  match t with TEnum (_ :: _) => true | _ => false end.
Definition member_panics (m : member) : bool :=
  match m with
  | MMethod _ _ i o => enum_fields i || enum_fields o
  | _ => false
  end.
Definition gen_panics (d : idl) : bool := existsb member_panics (i_members d).

(* ---------- literals ---------- *)

(* "`" + name + "`" *)
Definition name_literal (name : bytes) : bytes := cat [BQ; name; BQ].

(* strings.NewReplacer("`", "` + \"`\" + `", "\r", "` + \"\\r\" + `").Replace(s) *)
Fixpoint splice_raw (s : bytes) : bytes :=
  match s with
  | [] => []
  | x :: r =>
    if x =? 96 then cat [BQ; b " + "; QUOTE; BQ; QUOTE; b " + "; BQ; splice_raw r]
    else if x =? 13 then cat [BQ; b " + "; QUOTE; [92; 114]; QUOTE; b " + "; BQ; splice_raw r]
    else x :: splice_raw r
  end.

(* "`" + Replace(description) + "\n`" *)
Definition description_literal (descr : bytes) : bytes :=
  cat [BQ; splice_raw descr; NL; BQ].

(* ---------- the sections of generateTemplate, in source order ---------- *)

Definition fname (f : bytes * ty) : bytes := fst f.

(* for _, a := range midl.Aliases *)
Definition gen_alias (m : member) : bytes :=
  match m with
  | MAlias n doc t =>
    cat [write_doc_string doc; b "type "; n; b " "; write_type t true 0; NL; NL]
  | _ => []
  end.

(* for _, a := range midl.Errors: type declaration and Error() method *)
Definition gen_error_type (iname : bytes) (m : member) : bytes :=
  match m with
  | MError n doc o =>
    let t := error_type o in
    let fs := error_fields t in
    cat [write_doc_string doc; b "type "; n; b " "; write_type t true 0;
         NL; b "func (e "; n; b ") Error() string {"; NL;
         TAB; b "s := "; QUOTE; iname; b "."; n; QUOTE; NL;
         match fs with
         | [] => []
         | _ =>
           cat [TAB; b "s += fmt.Sprintf("; QUOTE; b "(";
                join (b ", ") (map (fun f => title (fname f) ++ b ": %v") fs);
                b ")"; QUOTE; b ", ";
                join (b ", ") (map (fun f => b "e." ++ title (fname f)) fs);
                b ")"; NL]
         end;
         TAB; b "return s"; b "}"; NL; NL]
  | _ => []
  end.

(* one case of Dispatch_Error *)
Definition gen_dispatch_error_case (iname : bytes) (m : member) : bytes :=
  match m with
  | MError n _ _ =>
    cat [TAB; TAB; b "case "; QUOTE; iname; b "."; n; QUOTE; b ":"; NL;
         tabs 3; b "errorRawParameters := e.Parameters.(*json.RawMessage)"; NL;
         tabs 3; b "if errorRawParameters == nil {"; NL;
         tabs 4; b "return e"; NL;
         tabs 3; b "}"; NL;
         tabs 3; b "var param "; n; NL;
         tabs 3; b "err := json.Unmarshal(*errorRawParameters, &param)"; NL;
         tabs 3; b "if err != nil {"; NL;
         tabs 4; b "return e"; NL;
         tabs 3; b "}"; NL;
         tabs 3; b "return &param"; NL]
  | _ => []
  end.

Definition gen_dispatch_error (iname : bytes) (errors : list member) : bytes :=
  cat [b "func Dispatch_Error(err error) error {"; NL;
       TAB; b "if e, ok := err.(*varlink.Error); ok {"; NL;
       TAB; TAB; b "switch e.Name {"; NL;
       cat (map (gen_dispatch_error_case iname) errors);
       TAB; TAB; b "}"; NL;
       TAB; b "}"; NL;
       TAB; b "return err"; NL;
       b "}"; NL; NL].

(* ---------- client method calls ---------- *)

Definition ftype (f : bytes * ty) : ty := snd f.

(* for _, field := range m.In.Fields { ", " + field.Name + "_in_ " ; writeType(false, 1) } *)
Definition in_params (ins : list (bytes * ty)) : bytes :=
  cat (map (fun f => cat [b ", "; fname f; b "_in_ "; write_type (ftype f) false 1]) ins).

(* field.Name + "_out_ " ; writeType(false, ident) ; ", " *)
Definition out_results (outs : list (bytes * ty)) (ident : nat) : bytes :=
  cat (map (fun f => cat [fname f; b "_out_ "; write_type (ftype f) false ident; b ", "]) outs).

(* "\tvar in " struct "\n"  { "\tin.X = " conversion "\n" } *)
Definition in_assignments (i : ty) (ins : list (bytes * ty)) : bytes :=
  cat [TAB; b "var in "; write_type i true 1; NL;
       cat (map (fun f => cat [TAB; b "in."; title (fname f); b " = ";
                               write_conversion (ftype f) true 1 (fname f ++ b "_in_"); NL]) ins)].

(* "\t\tX_out_ = " conversion "\n" *)
Definition out_assignments (outs : list (bytes * ty)) : bytes :=
  cat (map (fun f => cat [TAB; TAB; fname f; b "_out_ = ";
                          write_conversion (ftype f) false 2 (b "out." ++ title (fname f)); NL]) outs).

Definition gen_call (n : bytes) (ins outs : list (bytes * ty)) : bytes :=
  cat [b "func (m "; n; b "_methods) Call(ctx context.Context, c *varlink.Connection";
       in_params ins;
       b ") (";
       out_results outs 1;
       b "err_ error) {"; NL;
       b "receive, err_ := m.Send(ctx, c, 0";
       cat (map (fun f => cat [b ", "; fname f; b "_in_ "]) ins);
       b ")"; NL;
       b "if err_ != nil {"; NL; TAB; b "return"; NL; b "}"; NL;
       TAB;
       cat (map (fun f => cat [fname f; b "_out_ "; b ", "]) outs);
       b "_, err_ = receive(ctx)"; NL;
       TAB; b "return"; NL; b "}"; NL; NL].

Definition gen_send (iname n : bytes) (i o : ty) (ins outs : list (bytes * ty)) : bytes :=
  cat [b "func (m "; n; b "_methods) Send(ctx context.Context, c *varlink.Connection, flags uint64";
       in_params ins;
       b ") (func(ctx context.Context) (";
       cat (map (fun f => cat [write_type (ftype f) false 1; b ", "]) outs);
       b "uint64, error), error) {"; NL;
       match ins with
       | _ :: _ =>
         cat [in_assignments i ins;
              TAB; b "receive, err := c.Send(ctx, "; QUOTE; iname; b "."; n; QUOTE; b ", in, flags)"; NL]
       | [] =>
         cat [TAB; b "receive, err := c.Send(ctx, "; QUOTE; iname; b "."; n; QUOTE; b ", nil, flags)"; NL]
       end;
       TAB; b "if err != nil {"; NL; TAB; TAB; b "return nil, err"; NL; TAB; b "}"; NL;
       TAB; b "return func(context.Context) (";
       out_results outs 3;
       b "flags uint64, err error) {"; NL;
       match outs with
       | _ :: _ =>
         cat [TAB; TAB; b "var out "; write_type o true 2; NL;
              TAB; TAB; b "flags, err = receive(ctx, &out)"; NL]
       | [] => cat [TAB; TAB; b "flags, err = receive(ctx, nil)"; NL]
       end;
       TAB; TAB; b "if err != nil {"; NL;
       tabs 3; b "err = Dispatch_Error(err)"; NL;
       tabs 3; b "return"; NL;
       TAB; TAB; b "}"; NL;
       out_assignments outs;
       TAB; TAB; b "return"; NL;
       TAB; b "}, nil"; NL;
       b "}"; NL; NL].

Definition gen_upgrade (iname n : bytes) (i o : ty) (ins outs : list (bytes * ty)) : bytes :=
  cat [b "func (m "; n; b "_methods) Upgrade(ctx context.Context, c *varlink.Connection";
       in_params ins;
       b ") (func(ctx context.Context) (";
       out_results outs 1;
       b "flags uint64, conn varlink.ReadWriterContext, err_ error), error) {"; NL;
       match ins with
       | _ :: _ =>
         cat [in_assignments i ins;
              TAB; b "receive, err := c.Upgrade(ctx, "; QUOTE; iname; b "."; n; QUOTE; b ", in)"; NL]
       | [] =>
         cat [TAB; b "receive, err := c.Upgrade(ctx, "; QUOTE; iname; b "."; n; QUOTE; b ", nil)"; NL]
       end;
       b "if err != nil {"; NL; TAB; b "return nil, err"; NL; b "}"; NL;
       TAB;
       TAB; b "return func(context.Context) (";
       out_results outs 3;
       b "flags uint64, conn varlink.ReadWriterContext, err error) {"; NL;
       match outs with
       | _ :: _ =>
         cat [TAB; TAB; b "var out "; write_type o true 2; NL;
              TAB; TAB; b "flags, conn, err = receive(ctx, &out)"; NL]
       | [] => cat [TAB; TAB; b "flags, conn, err = receive(ctx, nil)"; NL]
       end;
       TAB; TAB; b "if err != nil {"; NL;
       tabs 3; b "err = Dispatch_Error(err)"; NL;
       tabs 3; b "return"; NL;
       TAB; TAB; b "}"; NL;
       out_assignments outs;
       TAB; TAB; b "return"; NL;
       TAB; b "}, nil"; NL;
       b "}"; NL; NL].

(* for _, m := range midl.Methods: the client side *)
Definition gen_client_method (iname : bytes) (m : member) : bytes :=
  match m with
  | MMethod n doc i o =>
    let ins := fields_of i in
    let outs := fields_of o in
    cat [write_doc_string doc;
         b "type "; n; b "_methods struct{}"; NL;
         b "func "; n; b "() "; n; b "_methods { return "; n; b "_methods{} }"; NL; NL;
         gen_call n ins outs;
         gen_send iname n i o ins outs;
         gen_upgrade iname n i o ins outs]
  | _ => []
  end.

(* field.Name + "_ " ; writeType(false, 1), preceded by ", " each *)
Definition svc_params (ins : list (bytes * ty)) : bytes :=
  cat (map (fun f => cat [b ", "; fname f; b "_ "; write_type (ftype f) false 1]) ins).

(* the same, separated by ", " *)
Definition reply_params (fs : list (bytes * ty)) : bytes :=
  join (b ", ") (map (fun f => cat [fname f; b "_ "; write_type (ftype f) false 1]) fs).

(* "\tout.X = " conversion(true, 1, name_) "\n" *)
Definition reply_assignments (fs : list (bytes * ty)) : bytes :=
  cat (map (fun f => cat [TAB; b "out."; title (fname f); b " = ";
                          write_conversion (ftype f) true 1 (fname f ++ b "_"); NL]) fs).

Definition gen_iface_method (m : member) : bytes :=
  match m with
  | MMethod n _ i _ =>
    cat [TAB; n; b "(ctx context.Context, c VarlinkCall"; svc_params (fields_of i); b ") error"; NL]
  | _ => []
  end.

Definition gen_reply_error (iname : bytes) (m : member) : bytes :=
  match m with
  | MError n doc o =>
    let fs := error_fields (error_type o) in
    cat [write_doc_string doc;
         b "func (c *VarlinkCall) Reply"; n; b "(ctx context.Context, ";
         reply_params fs;
         b ") error {"; NL;
         TAB; b "var out "; n; NL;
         reply_assignments fs;
         TAB; b "return c.ReplyError(ctx, "; QUOTE; iname; b "."; n; QUOTE; b ", &out)"; NL;
         b "}"; NL; NL]
  | _ => []
  end.

Definition gen_reply_method (m : member) : bytes :=
  match m with
  | MMethod n _ _ o =>
    let outs := fields_of o in
    cat [b "func (c *VarlinkCall) Reply"; n; b "(ctx context.Context, ";
         reply_params outs;
         b ") error {"; NL;
         match outs with
         | _ :: _ =>
           cat [TAB; b "var out "; write_type o true 1; NL;
                reply_assignments outs;
                TAB; b "return c.Reply(ctx, &out)"; NL]
         | [] => cat [TAB; b "return c.Reply(ctx, nil)"; NL]
         end;
         b "}"; NL; NL]
  | _ => []
  end.

Definition gen_dummy (iname : bytes) (m : member) : bytes :=
  match m with
  | MMethod n doc i _ =>
    cat [write_doc_string doc;
         b "func (s *VarlinkInterface) "; n; b "(ctx context.Context, c VarlinkCall";
         svc_params (fields_of i);
         b ") error {"; NL;
         TAB; b "return c.ReplyMethodNotImplemented(ctx, "; QUOTE; iname; b "."; n; QUOTE; b ")"; NL;
         b "}"; NL; NL]
  | _ => []
  end.

Definition gen_dispatch_case (pkg : bytes) (m : member) : bytes :=
  match m with
  | MMethod n _ i _ =>
    let ins := fields_of i in
    cat [TAB; b "case "; QUOTE; n; QUOTE; b ":"; NL;
         match ins with
         | _ :: _ =>
           cat [TAB; TAB; b "var in "; write_type i true 2; NL;
                TAB; TAB; b "err := call.GetParameters(&in)"; NL;
                TAB; TAB; b "if err != nil {"; NL;
                tabs 3; b "return call.ReplyInvalidParameter(ctx, "; QUOTE; b "parameters"; QUOTE; b ")"; NL;
                TAB; TAB; b "}"; NL;
                TAB; TAB; b "return s."; pkg; b "Interface."; n; b "(ctx, VarlinkCall{call}";
                cat (map (fun f => b ", " ++
                            write_conversion (ftype f) false 2 (b "in." ++ title (fname f))) ins);
                b ")"; NL]
         | [] =>
           cat [TAB; TAB; b "return s."; pkg; b "Interface."; n; b "(ctx, VarlinkCall{call})"; NL]
         end;
         NL]
  | _ => []
  end.

Definition gen_dispatch (pkg : bytes) (methods : list member) : bytes :=
  cat [b "func (s *VarlinkInterface) VarlinkDispatch(ctx context.Context, call varlink.Call, methodname string) error {"; NL;
       TAB; b "switch methodname {"; NL;
       cat (map (gen_dispatch_case pkg) methods);
       TAB; b "default:"; NL;
       TAB; TAB; b "return call.ReplyMethodNotFound(ctx, methodname)"; NL;
       TAB; b "}"; NL;
       b "}"; NL; NL].

Definition gen_name_func (iname : bytes) : bytes :=
  cat [b "func (s *VarlinkInterface) VarlinkGetName() string {"; NL;
       TAB; b "return "; name_literal iname; NL; b "}"; NL; NL].

Definition gen_descr_func (descr : bytes) : bytes :=
  cat [b "func (s *VarlinkInterface) VarlinkGetDescription() string {"; NL;
       TAB; b "return "; description_literal descr; NL; b "}"; NL; NL].

Definition gen_tail (pkg : bytes) : bytes :=
  cat [b "// Generated service interface"; NL; NL;
       b "type VarlinkInterface struct {"; NL;
       TAB; pkg; b "Interface"; NL;
       b "}"; NL; NL;
       b "func VarlinkNew(m "; pkg; b "Interface) *VarlinkInterface {"; NL;
       TAB; b "return &VarlinkInterface{m}"; NL;
       b "}"; NL].

(* everything written before the import block *)
Definition gen_head (d : idl) (pkg : bytes) : bytes :=
  cat [b "// Code generated by github.com/varlink/go/cmd/varlink-go-interface-generator, DO NOT EDIT.";
       NL; NL;
       write_doc_string (i_doc d);
       b "package "; pkg; NL; NL].

(* needJSON / needFmt: decided from the tree, not from the text *)
Definition member_uses_object (m : member) : bool :=
  match m with
  | MAlias _ _ t => uses_object t
  | MMethod _ _ i o => uses_object i || uses_object o
  | MError _ _ _ => false
  end.

(* needJSON := len(midl.Errors) > 0, then || usesObject over aliases and methods *)
Definition need_json (d : idl) : bool :=
  negb (match i_errors d with [] => true | _ => false end)
  || existsb member_uses_object (i_aliases d)
  || existsb member_uses_object (i_methods d).

Definition error_has_fields (m : member) : bool :=
  match m with
  | MError _ _ o => match error_fields (error_type o) with [] => false | _ => true end
  | _ => false
  end.

(* needFmt: some error has parameters *)
Definition need_fmt (d : idl) : bool := existsb error_has_fields (i_errors d).

(* fmt.Sprintf("import (\n%s\n)", strings.Join(imports, "\n\t")) without the trailing "\n\n" *)
Definition imports_block (d : idl) : bytes :=
  let imports :=
    [cat [QUOTE; b "github.com/varlink/go/varlink"; QUOTE]; cat [QUOTE; b "context"; QUOTE]]
    ++ (if need_json d then [cat [QUOTE; b "encoding/json"; QUOTE]] else [])
    ++ (if need_fmt d then [cat [QUOTE; b "fmt"; QUOTE]] else []) in
  cat [b "import ("; NL; join (NL ++ TAB) imports; NL; b ")"].

(* everything written after the import block (its "\n\n" included) *)
Definition gen_body (d : idl) (pkg : bytes) : bytes :=
  let iname := i_name d in
  cat [NL; NL;
       b "// Generated type declarations"; NL; NL;
       cat (map gen_alias (i_aliases d));
       cat (map (gen_error_type iname) (i_errors d));
       gen_dispatch_error iname (i_errors d);
       b "// Generated client method calls"; NL; NL;
       cat (map (gen_client_method iname) (i_methods d));
       b "// Generated service interface with all methods"; NL; NL;
       b "type "; pkg; b "Interface interface {"; NL;
       cat (map gen_iface_method (i_methods d));
       b "}"; NL; NL;
       b "// Generated service object with all methods"; NL; NL;
       b "type VarlinkCall struct{ varlink.Call }"; NL; NL;
       b "// Generated reply methods for all varlink errors"; NL; NL;
       cat (map (gen_reply_error iname) (i_errors d));
       b "// Generated reply methods for all varlink methods"; NL; NL;
       cat (map gen_reply_method (i_methods d));
       b "// Generated dummy implementations for all varlink methods"; NL; NL;
       cat (map (gen_dummy iname) (i_methods d));
       b "// Generated method call dispatcher"; NL; NL;
       gen_dispatch pkg (i_methods d);
       b "// Generated varlink interface name"; NL; NL;
       gen_name_func iname;
       b "// Generated varlink interface description"; NL; NL;
       gen_descr_func (i_descr d);
       gen_tail pkg].

(* b.String() *)
Definition ret_string (d : idl) (pkg : bytes) : bytes :=
  cat [gen_head d pkg; imports_block d; gen_body d pkg].

Definition gen_text (d : idl) : bytes := ret_string d (pkgname_of (i_name d)).

(* generateTemplate up to (excluding) format.Source *)
Definition generate (description : bytes) : gen_res :=
  match parse (trim_right_lf description) with
  | POk d =>
    if gen_panics d then GPanic
    else GOk (pkgname_of (i_name d)) (gen_text (norm_errors d))
  | PErr => GParseErr
  | PPanic => GPanic
  | PFuel => GPanic
  end.
