(* Model/Idl.v — executable model of varlink/idl/idl.go (the interface
   description parser), statement by statement.

   Cursor-faithful: the parser state is a zipper over the input plus the
   number of positions the Go cursor `position` has run past `len(input)`
   (`over`).  `next` increments unconditionally exactly as the Go code does,
   `backup` decrements, and every Go slice expression `input[a:b]` is a
   checked operation that yields RPanic when Go would panic.  Loops and the
   readType/readStructType recursion are fuelled; running out of fuel is the
   distinguished outcome RFuel (theorem C09 excludes both).

   No proofs in this file. *)
From VL Require Import Bytes Lit.
Open Scope N_scope.

(* ---------- syntax tree (what idl.New can build) ---------- *)

Inductive ty :=
| TBool | TInt | TFloat | TString | TObject
| TArray (e : ty) | TMaybe (e : ty) | TMap (e : ty)
| TAlias (n : bytes)
| TStruct (fs : list (bytes * ty))
| TEnum (ns : list bytes).

Inductive member :=
| MAlias (name doc : bytes) (t : ty)
| MMethod (name doc : bytes) (i o : ty)
| MError (name doc : bytes) (t : option ty).

Record idl := mkIdl { i_name : bytes; i_doc : bytes; i_descr : bytes; i_members : list member }.

Definition member_name (m : member) : bytes :=
  match m with MAlias n _ _ => n | MMethod n _ _ _ => n | MError n _ _ => n end.
Definition is_alias m := match m with MAlias _ _ _ => true | _ => false end.
Definition is_method m := match m with MMethod _ _ _ _ => true | _ => false end.
Definition is_error m := match m with MError _ _ _ => true | _ => false end.
(* the Go tree keeps three filtered lists beside Members *)
Definition i_aliases (d : idl) := filter is_alias (i_members d).
Definition i_methods (d : idl) := filter is_method (i_members d).
Definition i_errors (d : idl) := filter is_error (i_members d).

(* ---------- character classes ---------- *)

Definition LF := 10. Definition SP := 32. Definition TAB := 9. Definition CR := 13.
Definition HASH := 35.
Definition is_lower (c : N) := (97 <=? c) && (c <=? 122).
Definition is_upper (c : N) := (65 <=? c) && (c <=? 90).
Definition is_digit (c : N) := (48 <=? c) && (c <=? 57).
Definition is_alpha c := is_lower c || is_upper c.
Definition is_alnum c := is_alpha c || is_digit c.
Definition is_lowdig c := is_lower c || is_digit c.
Definition is_field_char c := is_alnum c || (c =? 95).
Definition not_lf (c : N) := negb (c =? LF).

(* ---------- cursor ---------- *)

Record cur := mkCur { bef : bytes (* consumed, reversed *); rest : bytes; pos : N; over : nat }.
Definition cur_init (s : bytes) : cur := mkCur [] s 0 0.

(* p.next(): the byte at position or -1 (None); position++ in both cases *)
Definition next (c : cur) : option N * cur :=
  match rest c with
  | x :: r => (Some x, mkCur (x :: bef c) r (pos c + 1) (over c))
  | [] => (None, mkCur (bef c) [] (pos c + 1) (S (over c)))
  end.

(* p.backup(): position--.  Every backup in idl.go follows a next on the same
   path, so position >= 1 there; the degenerate branch is never taken. *)
Definition backup (c : cur) : cur :=
  match over c with
  | S k => mkCur (bef c) (rest c) (pos c - 1) k
  | O => match bef c with
         | x :: b' => mkCur b' (x :: rest c) (pos c - 1) 0
         | [] => c
         end
  end.

(* p.position < len(p.input) *)
Definition has_more (c : cur) : bool := match rest c with [] => false | _ => true end.

(* p.input[start:p.position]; None = Go panics (slice bounds out of range) *)
Definition slice (start : N) (c : cur) : option bytes :=
  match over c with
  | O => if start <=? pos c
         then Some (rev (firstn (N.to_nat (pos c - start)) (bef c)))
         else None
  | S _ => None
  end.

(* p.input[p.position:]; None = panic *)
Definition suffix (c : cur) : option bytes :=
  match over c with O => Some (rest c) | S _ => None end.

Record pst := mkPst { cu : cur; lc : bytes (* lastComment buffer *) }.

Inductive res (A : Type) :=
| ROk (a : A) (s : pst)
| RNil            (* Go returned nil / "" / an error: the parse fails *)
| RPanic          (* Go would panic *)
| RFuel.          (* model ran out of fuel *)
Arguments ROk {A} _ _. Arguments RNil {A}. Arguments RPanic {A}. Arguments RFuel {A}.

(* for { c := next(); if !p(c) { backup(); break } }  — None = out of fuel *)
Fixpoint scan_while (p : N -> bool) (fuel : nat) (c : cur) : option cur :=
  match fuel with
  | O => None
  | S f =>
    let (ch, c1) := next c in
    match ch with
    | Some x => if p x then scan_while p f c1 else Some (backup c1)
    | None => Some (backup c1)
    end
  end.

(* ---------- advance ---------- *)

Definition lc_append (l txt : bytes) : bytes :=
  match l with [] => txt | _ => l ++ [LF] ++ txt end.

Fixpoint advance (fuel : nat) (s : pst) : res unit :=
  match fuel with
  | O => RFuel
  | S f =>
    let (ch, c1) := next (cu s) in
    match ch with
    | Some x =>
      if x =? LF then advance f (mkPst c1 [])
      else if (x =? SP) || (x =? TAB) || (x =? CR) then advance f (mkPst c1 (lc s))
      else if x =? HASH then
        let (ch2, c2) := next c1 in
        let c3 := match ch2 with
                  | Some y => if y =? SP then c2 else backup c2
                  | None => backup c2
                  end in
        let start := pos c3 in
        match scan_while not_lf fuel c3 with
        | None => RFuel
        | Some c4 =>
          match slice start c4 with
          | None => RPanic
          | Some txt =>
            let c5 := if has_more c4 then snd (next c4) else c4 in
            advance f (mkPst c5 (lc_append (lc s) txt))
          end
        end
      else ROk tt (mkPst (backup c1) (lc s))
    | None => ROk tt (mkPst (backup c1) (lc s))
    end
  end.

(* ---------- token readers ---------- *)

Definition read_span (p : N -> bool) (fuel : nat) (s : pst) : res bytes :=
  let start := pos (cu s) in
  match scan_while p fuel (cu s) with
  | None => RFuel
  | Some c' => match slice start c' with
               | None => RPanic
               | Some w => ROk w (mkPst c' (lc s))
               end
  end.

Definition read_keyword := read_span is_lower.
Definition read_type_name := read_span is_alnum.

Definition read_field_name (fuel : nat) (s : pst) : res bytes :=
  let start := pos (cu s) in
  let (ch, c1) := next (cu s) in
  let first_ok := match ch with Some x => is_lower x | None => false end in
  if first_ok then
    match scan_while is_field_char fuel c1 with
    | None => RFuel
    | Some c' => match slice start c' with
                 | None => RPanic
                 | Some w => ROk w (mkPst c' (lc s))
                 end
    end
  else ROk [] (mkPst (backup c1) (lc s)).

(* the two interface-name regular expressions of readInterfaceName as greedy
   matchers: ALPHA+ ( "." ALNUM+ ( "-" ALNUM+ )STAR )+   and
   "xn--" LOWDIG+ ( "." LOWDIG+ ( "-" LOWDIG+ )STAR )+ *)
Definition plus (p : N -> bool) (s : bytes) : option (bytes * bytes) :=
  match take_while p s with
  | [] => None
  | w => Some (w, drop_while p s)
  end.

Fixpoint rx_dashes (p : N -> bool) (fuel : nat) (s : bytes) : bytes * bytes :=
  match fuel with
  | O => ([], s)
  | S f =>
    match s with
    | 45 :: r =>
      match plus p r with
      | Some (w, r') => let (m, r'') := rx_dashes p f r' in (45 :: w ++ m, r'')
      | None => ([], s)
      end
    | _ => ([], s)
    end
  end.

Fixpoint rx_dots (p : N -> bool) (fuel : nat) (s : bytes) : bytes * bytes :=
  match fuel with
  | O => ([], s)
  | S f =>
    match s with
    | 46 :: r =>
      match plus p r with
      | Some (w, r') =>
        let (d, r2) := rx_dashes p fuel r' in
        let (m, r3) := rx_dots p f r2 in
        (46 :: w ++ d ++ m, r3)
      | None => ([], s)
      end
    | _ => ([], s)
    end
  end.

Definition rx_name1 (s : bytes) : bytes :=
  match plus is_alpha s with
  | Some (w, r) => match rx_dots is_alnum (S (length r)) r with
                   | ([], _) => []
                   | (m, _) => w ++ m
                   end
  | None => []
  end.

Definition rx_name2 (s : bytes) : bytes :=
  match s with
  | 120 :: 110 :: 45 :: 45 :: r0 =>
    match plus is_lowdig r0 with
    | Some (w, r) => match rx_dots is_lowdig (S (length r)) r with
                     | ([], _) => []
                     | (m, _) => [120; 110; 45; 45] ++ w ++ m
                     end
    | None => []
    end
  | _ => []
  end.

(* p.position += len(name) on a cursor with over = 0 *)
Fixpoint skip_n (n : nat) (c : cur) : cur :=
  match n with O => c | S k => skip_n k (snd (next c)) end.

Definition read_interface_name (s : pst) : res bytes :=
  match suffix (cu s) with
  | None => RPanic
  | Some sfx =>
    let n1 := rx_name1 sfx in
    match n1 with
    | _ :: _ =>
      if (255 <? N.of_nat (length n1)) then ROk [] s
      else ROk n1 (mkPst (skip_n (length n1) (cu s)) (lc s))
    | [] =>
      let n2 := rx_name2 sfx in
      match n2 with
      | _ :: _ =>
        if (255 <? N.of_nat (length n2)) then ROk [] s
        else ROk n2 (mkPst (skip_n (length n2) (cu s)) (lc s))
      | [] => ROk [] s
      end
    end
  end.

(* ---------- types ---------- *)


Definition builtin_of (w : bytes) : option ty :=
  if bytes_eqb w kw_bool then Some TBool
  else if bytes_eqb w kw_int then Some TInt
  else if bytes_eqb w kw_float then Some TFloat
  else if bytes_eqb w kw_string then Some TString
  else if bytes_eqb w kw_object then Some TObject
  else None.

Definition is_maybe (t : ty) : bool := match t with TMaybe _ => true | _ => false end.

(* state of the field list being read: t.Kind and len(t.Fields) *)
Inductive lmode := LNone | LTyped | LBare.

Definition bind {A B} (r : res A) (k : A -> pst -> res B) : res B :=
  match r with ROk a s => k a s | RNil => RNil | RPanic => RPanic | RFuel => RFuel end.
Notation "'do' ( a , s ) <- r ; k" := (bind r (fun a s => k))
  (at level 200, a name, s name, r at level 100, k at level 200).

Definition finish_list (m : lmode) (tf : list (bytes * ty)) (ef : list bytes) : ty :=
  match m with
  | LBare => TEnum (rev ef)
  | _ => TStruct (rev tf)
  end.

Fixpoint read_type (fuel : nat) (F : nat) (s : pst) {struct fuel} : res ty :=
  match fuel with
  | O => RFuel
  | S f =>
    let (ch, c1) := next (cu s) in
    let s1 := mkPst c1 (lc s) in
    match ch with
    | Some 63 (* ? *) =>
      do (e, s2) <- read_type f F s1;
      if is_maybe e then RNil else ROk (TMaybe e) s2
    | Some 91 (* [ *) =>
      do (kw, s2) <- read_keyword F s1;
      let mk := if bytes_eqb kw kw_string then Some TMap
                else match kw with [] => Some TArray | _ => None end in
      match mk with
      | None => RNil
      | Some con =>
        let (ch2, c3) := next (cu s2) in
        match ch2 with
        | Some 93 (* ] *) =>
          do (e, s4) <- read_type f F (mkPst c3 (lc s2));
          ROk (con e) s4
        | _ => RNil
        end
      end
    | _ =>
      let s0 := mkPst (backup c1) (lc s) in
      do (kw, s2) <- read_keyword F s0;
      match kw with
      | _ :: _ => match builtin_of kw with Some t => ROk t s2 | None => RNil end
      | [] =>
        do (nm, s3) <- read_type_name F s2;
        match nm with
        | _ :: _ => ROk (TAlias nm) s3
        | [] =>
          (* readStructType *)
          let (ch3, c4) := next (cu s3) in
          match ch3 with
          | Some 40 (* ( *) =>
            do (_, s5) <- advance F (mkPst c4 (lc s3));
            let (ch4, c6) := next (cu s5) in
            match ch4 with
            | Some 41 (* ) *) => ROk (TStruct []) (mkPst c6 (lc s5))
            | _ => read_fields f F LNone [] [] (mkPst (backup c6) (lc s5))
            end
          | _ => RNil    (* backup; return nil *)
          end
        end
      end
    end
  end

(* the `for` loop of readStructType; tf / ef are the typed fields / enum names so far, reversed *)
with read_fields (fuel : nat) (F : nat) (m : lmode) (tf : list (bytes * ty)) (ef : list bytes)
                 (s : pst) {struct fuel} : res ty :=
  match fuel with
  | O => RFuel
  | S f =>
    do (_, s1) <- advance F s;
    do (name, s2) <- read_field_name F s1;
    match name with
    | [] => RNil
    | _ :: _ =>
      do (_, s3) <- advance F s2;
      let (ch, c4) := next (cu s3) in
      let after_field (m' : lmode) tf' ef' (s5 : pst) : res ty :=
        do (_, s6) <- advance F s5;
        let (ch7, c7) := next (cu s6) in
        match ch7 with
        | Some 44 (* , *) => read_fields f F m' tf' ef' (mkPst c7 (lc s6))
        | Some 41 (* ) *) => ROk (finish_list m' tf' ef') (mkPst c7 (lc s6))
        | _ => RNil
        end in
      match ch with
      | Some 58 (* : *) =>
        match m with
        | LBare => RNil
        | _ =>
          do (_, s5) <- advance F (mkPst c4 (lc s3));
          do (ft, s6) <- read_type f F s5;
          after_field LTyped ((name, ft) :: tf) ef s6
        end
      | _ =>
        match m with
        | LTyped => RNil
        | _ => after_field LBare tf (name :: ef) (mkPst (backup c4) (lc s3))
        end
      end
    end
  end.

(* ---------- members ---------- *)

Definition read_alias (F : nat) (s : pst) : res member :=
  do (_, s1) <- advance F s;
  let doc := lc s1 in
  do (name, s2) <- read_type_name F s1;
  match name with
  | [] => RNil
  | _ :: _ =>
    do (_, s3) <- advance F s2;
    do (t, s4) <- read_type F F s3;
    ROk (MAlias name doc t) s4
  end.

Definition read_method (F : nat) (s : pst) : res member :=
  do (_, s1) <- advance F s;
  let doc := lc s1 in
  do (name, s2) <- read_type_name F s1;
  match name with
  | [] => RNil
  | _ :: _ =>
    do (_, s3) <- advance F s2;
    do (tin, s4) <- read_type F F s3;
    do (_, s5) <- advance F s4;
    let (one, c6) := next (cu s5) in
    let (two, c7) := next c6 in
    match one, two with
    | Some 45, Some 62 =>
      do (_, s8) <- advance F (mkPst c7 (lc s5));
      do (tout, s9) <- read_type F F s8;
      ROk (MMethod name doc tin tout) s9
    | _, _ => RNil
    end
  end.

(* the type of an error is optional: when none can be read the cursor and the
   comment buffer are rewound to just after the name *)
Definition read_error (F : nat) (s : pst) : res member :=
  do (_, s1) <- advance F s;
  let doc := lc s1 in
  do (name, s2) <- read_type_name F s1;
  match name with
  | [] => RNil
  | _ :: _ =>
    match advance F s2 with
    | ROk _ s3 =>
      match read_type F F s3 with
      | ROk t s4 => ROk (MError name doc (Some t)) s4
      | RNil => ROk (MError name doc None) s2
      | RPanic => RPanic
      | RFuel => RFuel
      end
    | RNil => RNil
    | RPanic => RPanic
    | RFuel => RFuel
    end
  end.

Fixpoint read_members (fuel : nat) (F : nat) (seen : list bytes) (acc : list member) (s : pst)
  : res (list member) :=
  match fuel with
  | O => RFuel
  | S f =>
    do (_, s1) <- advance F s;
    if has_more (cu s1) then
      do (kw, s2) <- read_keyword F s1;
      let rd := if bytes_eqb kw kw_type then Some read_alias
                else if bytes_eqb kw kw_method then Some read_method
                else if bytes_eqb kw kw_error then Some read_error
                else None in
      match rd with
      | None => RNil
      | Some reader =>
        do (m, s3) <- reader F s2;
        if existsb (bytes_eqb (member_name m)) seen then RNil
        else read_members f F (member_name m :: seen) (m :: acc) s3
      end
    else ROk (rev acc) s1
  end.

Inductive presult := POk (t : idl) | PErr | PPanic | PFuel.

(* idl.New *)
Definition parse (input : bytes) : presult :=
  let F := S (S (length input)) in
  let s0 := mkPst (cur_init input) [] in
  let r :=
    do (_, s1) <- advance F s0;
    do (kw, s2) <- read_keyword F s1;
    if bytes_eqb kw kw_interface then
      do (_, s3) <- advance F s2;
      let doc := lc s3 in
      do (name, s4) <- read_interface_name s3;
      match name with
      | [] => RNil
      | _ :: _ =>
        do (ms, s5) <- read_members F F [] [] s4;
        if existsb is_method ms then ROk (mkIdl name doc input ms) s5 else RNil
      end
    else RNil in
  match r with
  | ROk t _ => POk t
  | RNil => PErr
  | RPanic => PPanic
  | RFuel => PFuel
  end.

(* ---------- printer, strip (specification side of C06) ---------- *)

Fixpoint print_ty (t : ty) : bytes :=
  match t with
  | TBool => kw_bool | TInt => kw_int | TFloat => kw_float
  | TString => kw_string | TObject => kw_object
  | TArray e => [91; 93] ++ print_ty e
  | TMaybe e => [63] ++ print_ty e
  | TMap e => [91] ++ kw_string ++ [93] ++ print_ty e
  | TAlias n => n
  | TStruct fs =>
    [40] ++ (fix pf (l : list (bytes * ty)) : bytes :=
               match l with
               | [] => []
               | [(n, ft)] => n ++ [58] ++ print_ty ft
               | (n, ft) :: r => n ++ [58] ++ print_ty ft ++ [44] ++ pf r
               end) fs ++ [41]
  | TEnum ns =>
    [40] ++ (fix pe (l : list bytes) : bytes :=
               match l with
               | [] => []
               | [n] => n
               | n :: r => n ++ [44] ++ pe r
               end) ns ++ [41]
  end.

Definition print_member (m : member) : bytes :=
  match m with
  | MAlias n _ t => kw_type ++ n ++ print_ty t
  | MMethod n _ i o => kw_method ++ n ++ print_ty i ++ [45; 62] ++ print_ty o
  | MError n _ None => kw_error ++ n
  | MError n _ (Some t) => kw_error ++ n ++ print_ty t
  end.

Definition print_idl (d : idl) : bytes :=
  kw_interface ++ i_name d ++ concat_bytes (map print_member (i_members d)).

(* drop space, tab, CR, LF and comments (# up to, not including, the line end) *)
Fixpoint strip_from (incomment : bool) (s : bytes) : bytes :=
  match s with
  | [] => []
  | x :: r =>
    if incomment then (if x =? LF then strip_from false r else strip_from true r)
    else if x =? HASH then strip_from true r
    else if (x =? SP) || (x =? TAB) || (x =? CR) || (x =? LF) then strip_from false r
    else x :: strip_from false r
  end.
Definition strip := strip_from false.

(* ---------- well-formedness produced by the parser (C06) ---------- *)

Fixpoint nodup_bytes (l : list bytes) : bool :=
  match l with
  | [] => true
  | x :: r => negb (existsb (bytes_eqb x) r) && nodup_bytes r
  end.

Fixpoint wf_ty (t : ty) : bool :=
  match t with
  | TArray e | TMap e => wf_ty e
  | TMaybe e => negb (is_maybe e) && wf_ty e
  | TStruct fs => (fix wfs (l : list (bytes * ty)) : bool :=
                     match l with [] => true | (_, ft) :: r => wf_ty ft && wfs r end) fs
  | TEnum ns => match ns with [] => false | _ => true end
  | _ => true
  end.

Definition wf_member (m : member) : bool :=
  match m with
  | MAlias _ _ t => wf_ty t
  | MMethod _ _ i o => wf_ty i && wf_ty o
  | MError _ _ None => true
  | MError _ _ (Some t) => wf_ty t
  end.

Definition wf_liberal (d : idl) : bool :=
  nodup_bytes (map member_name (i_members d))
  && existsb is_method (i_members d)
  && forallb wf_member (i_members d).
