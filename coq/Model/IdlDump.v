(* Model/IdlDump.v — canonical one-line rendering of a parse result, shared by
   the extracted driver, the in-Coq cross-check and (re-implemented in Go) the
   harness.  Names and docs are hex so that any byte can appear.

   ty      ::= b | i | f | s | o | A ty | Q ty | D ty | N hex . | S( fld,.. ) | E( hex,.. )
   fld     ::= hex : ty
   member  ::= T hex . hex . ty | M hex . hex . ty > ty | X hex . hex . ty | X hex . hex . -
   idl     ::= I hex . hex . (D1|D0) [ m;.. ] [ m;.. ] [ m;.. ] [ m;.. ]
               name doc  descr==input  members aliases methods errors          *)
From VL Require Import Bytes Idl.
Open Scope N_scope.

Definition hexdigit (n : N) : N := if n <? 10 then 48 + n else 87 + n.
Fixpoint hex (s : bytes) : bytes :=
  match s with
  | [] => []
  | x :: r => hexdigit (x / 16) :: hexdigit (x mod 16) :: hex r
  end.

Fixpoint sep_by (sep : bytes) (l : list bytes) : bytes :=
  match l with
  | [] => []
  | [x] => x
  | x :: r => x ++ sep ++ sep_by sep r
  end.

Fixpoint dump_ty (t : ty) : bytes :=
  match t with
  | TBool => [98] | TInt => [105] | TFloat => [102] | TString => [115] | TObject => [111]
  | TArray e => 65 :: dump_ty e
  | TMaybe e => 81 :: dump_ty e
  | TMap e => 68 :: dump_ty e
  | TAlias n => 78 :: hex n ++ [46]
  | TStruct fs =>
    [83; 40] ++ sep_by [44] ((fix df (l : list (bytes * ty)) : list bytes :=
                               match l with
                               | [] => []
                               | (n, ft) :: r => (hex n ++ [58] ++ dump_ty ft) :: df r
                               end) fs) ++ [41]
  | TEnum ns => [69; 40] ++ sep_by [44] (map hex ns) ++ [41]
  end.

Definition dump_member (m : member) : bytes :=
  match m with
  | MAlias n d t => 84 :: hex n ++ [46] ++ hex d ++ [46] ++ dump_ty t
  | MMethod n d i o => 77 :: hex n ++ [46] ++ hex d ++ [46] ++ dump_ty i ++ [62] ++ dump_ty o
  | MError n d (Some t) => 88 :: hex n ++ [46] ++ hex d ++ [46] ++ dump_ty t
  | MError n d None => 88 :: hex n ++ [46] ++ hex d ++ [46; 45]
  end.

Definition dump_members (l : list member) : bytes :=
  [91] ++ sep_by [59] (map dump_member l) ++ [93].

Definition dump_idl (input : bytes) (d : idl) : bytes :=
  73 :: hex (i_name d) ++ [46] ++ hex (i_doc d) ++ [46]
     ++ (if bytes_eqb (i_descr d) input then [68; 49] else [68; 48])
     ++ dump_members (i_members d) ++ dump_members (i_aliases d)
     ++ dump_members (i_methods d) ++ dump_members (i_errors d).

(* OK <dump> | ERR | PANIC | FUEL *)
Definition dump_presult (input : bytes) (r : presult) : bytes :=
  match r with
  | POk d => [79; 75; 32] ++ dump_idl input d
  | PErr => [69; 82; 82]
  | PPanic => [80; 65; 78; 73; 67]
  | PFuel => [70; 85; 69; 76]
  end.

Definition idl_case (input : bytes) : bytes := dump_presult input (parse input).

(* C06 oracle evaluated on any tree: re-print equality and liberal well-formedness *)
Definition idl_oracle (input : bytes) (d : idl) : bool * bool :=
  (bytes_eqb (strip input) (strip (print_idl d)), wf_liberal d).
