(* Model/CtxFacts.v — what the translator (harness/cmd/goaccess, mode "ctxio") reads off ctxio/conn.go for each of the three
   context-aware operations, and how these facts instantiate the parameters of Model/Duplex.v.

   For every method M in {Write, Read, ReadBytes} of ctxio.Conn:
     cf_setters   the deadline setters M calls on the underlying connection (SetDeadline, SetReadDeadline, SetWriteDeadline)
     cf_own_chan  M allocates its completion channel itself (make(chan …) inside M), and uses no channel stored in the receiver
     cf_joins     in the branch taken when the context is done, M receives from that channel before it returns
     cf_spawns    M starts exactly one goroutine

   No proofs in this file. *)
From VL Require Import Bytes Ctxio Duplex.
Open Scope nat_scope.

Inductive setter := SetBoth | SetRead | SetWrite.

Record cfact := mkCF {
  cf_dir : dir;                 (* Read and ReadBytes are Rd, Write is Wr *)
  cf_setters : list setter;
  cf_own_chan : bool;
  cf_joins : bool;
  cf_spawns : nat }.

Definition hits (st : setter) (d : dir) : bool :=
  match st, d with
  | SetBoth, _ => true
  | SetRead, Rd => true
  | SetWrite, Wr => true
  | _, _ => false
  end.

(* does an operation in direction [who] move the deadline of direction [other]? *)
Definition facts_scope (fs : list cfact) (who other : dir) : bool :=
  existsb (fun f => dir_eqb (cf_dir f) who && existsb (fun st => hits st other) (cf_setters f)) fs.

Definition facts_shared_chan (fs : list cfact) : bool := negb (forallb cf_own_chan fs).

(* the discipline the proofs about Duplex.v assume *)
Definition cfact_ok (f : cfact) : bool :=
  forallb (fun st => hits st (cf_dir f) && negb (hits st (flip (cf_dir f)))) (cf_setters f)
  && negb (match cf_setters f with [] => true | _ => false end)
  && cf_own_chan f && cf_joins f && Nat.eqb (cf_spawns f) 1.

Definition has_dir (fs : list cfact) (d : dir) : bool := existsb (fun f => dir_eqb (cf_dir f) d) fs.

Definition ctxio_facts_ok (fs : list cfact) : bool :=
  forallb cfact_ok fs && has_dir fs Rd && has_dir fs Wr.
