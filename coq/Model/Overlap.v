(* Model/Overlap.v — several serving calls (Listen / DoListen) on ONE service object whose lifetimes overlap: a call that has been
   shut down keeps draining the connections it accepted while the object is already bound and served again.

   service.go:  func (s *Service) Listen(...) { var wg sync.WaitGroup; defer func() { s.teardown(); wg.Wait() }() ... wg.Add(1); go s.handleConnection(ctx, conn, &wg) }

   Model/Lifecycle.v has one serving call at a time.  Here the only question is what a serving call waits for before it returns.  That is a
   parameter, because it is exactly what a refactoring can get wrong:

     shared_wg = false   every serving call waits for the connections IT accepted (a WaitGroup local to the call)
     shared_wg = true    one WaitGroup in the Service struct: a call waits for every connection of every call

   No proofs in this file. *)
From VL Require Import Bytes.
Open Scope nat_scope.

Record scall := mkCall {
  sc_conns : list nat;      (* connections this call accepted that are still open *)
  sc_shut : bool;           (* Shutdown has reached this call: it accepts nothing more *)
  sc_returned : bool }.

Record ost := mkO { o_calls : list scall; o_next : nat (* next connection id *) }.

Definition o_init : ost := mkO [] 0.

Inductive oev :=
| OStart                    (* a new serving call begins (Bind + Listen / DoListen) *)
| OAccept (k : nat)         (* call k accepts a new connection *)
| OEnd (c : nat)            (* connection c ends *)
| OShutdown (k : nat)       (* Shutdown reaches call k *)
| OReturn (k : nat).        (* call k returns *)

Fixpoint set_nth {A} (n : nat) (x : A) (l : list A) : list A :=
  match l, n with
  | [], _ => []
  | _ :: r, O => x :: r
  | y :: r, S m => y :: set_nth m x r
  end.

Definition remove_conn (c : nat) (k : scall) : scall :=
  mkCall (filter (fun x => negb (Nat.eqb x c)) (sc_conns k)) (sc_shut k) (sc_returned k).

Definition all_drained (s : ost) : bool := forallb (fun k => match sc_conns k with [] => true | _ => false end) (o_calls s).

(* what wg.Wait() of call k waits for *)
Definition may_return (shared_wg : bool) (s : ost) (k : scall) : bool :=
  sc_shut k && negb (sc_returned k) &&
  (if shared_wg then all_drained s else match sc_conns k with [] => true | _ => false end).

Definition ostep (shared_wg : bool) (s : ost) (e : oev) : option ost :=
  match e with
  | OStart => Some (mkO (o_calls s ++ [mkCall [] false false]) (o_next s))
  | OAccept k =>
    match nth_error (o_calls s) k with
    | Some c => if sc_shut c || sc_returned c then None
                else Some (mkO (set_nth k (mkCall (sc_conns c ++ [o_next s]) false false) (o_calls s)) (S (o_next s)))
    | None => None
    end
  | OEnd c =>
    if existsb (fun k => existsb (Nat.eqb c) (sc_conns k)) (o_calls s)
    then Some (mkO (map (remove_conn c) (o_calls s)) (o_next s)) else None
  | OShutdown k =>
    match nth_error (o_calls s) k with
    | Some c => if sc_returned c then None else Some (mkO (set_nth k (mkCall (sc_conns c) true false) (o_calls s)) (o_next s))
    | None => None
    end
  | OReturn k =>
    match nth_error (o_calls s) k with
    | Some c => if may_return shared_wg s c then Some (mkO (set_nth k (mkCall (sc_conns c) true true) (o_calls s)) (o_next s)) else None
    | None => None
    end
  end.

Fixpoint orun (shared_wg : bool) (s : ost) (es : list oev) : option ost :=
  match es with
  | [] => Some s
  | e :: r => match ostep shared_wg s e with Some s' => orun shared_wg s' r | None => None end
  end.

Inductive oreach (shared_wg : bool) : ost -> Prop :=
| or_init : oreach shared_wg o_init
| or_step : forall s e s', oreach shared_wg s -> ostep shared_wg s e = Some s' -> oreach shared_wg s'.
