(* Model/Json.v — Go's encoding/json as varlink/go uses it.

   Encoding: json.Marshal of the values the library and its callers pass
   (strings through appendString with HTML escaping, json.Number tokens,
   json.RawMessage through compact, arrays, objects with a fixed member order,
   the library's own structs with omitempty).
   Decoding: json.Unmarshal into the library's structs (serviceCall, the client
   reply, the built-in parameter structs): whole-input validation first
   (checkValid, nesting limit 10000), then member-wise decoding with Go's key
   matching (exact, then case-folded incl. U+017F and U+212A), last duplicate
   wins, null members skipped (pointer fields reset), type mismatches recorded
   as an error while decoding continues.

   No proofs in this file. *)
From VL Require Import Bytes.
Open Scope N_scope.

(* ================= values ================= *)

Inductive jvalue :=
| JNull
| JBool (b : bool)
| JNum (tok : bytes)                      (* json.Number / number literal, digit for digit *)
| JStr (s : bytes)                        (* a Go string: arbitrary bytes *)
| JArr (l : list jvalue)
| JObj (m : list (bytes * jvalue)).       (* members in emission order *)

(* ================= UTF-8 (utf8.DecodeRune) ================= *)

Definition is_cont (c : N) : bool := (128 <=? c) && (c <=? 191).

(* width of the valid UTF-8 sequence at the head of s, 0 when invalid (RuneError, width 1) *)
Definition utf8_width (s : bytes) : nat :=
  match s with
  | [] => 0%nat
  | c0 :: r =>
    if c0 <? 128 then 1%nat
    else if (194 <=? c0) && (c0 <=? 223) then
      match r with c1 :: _ => if is_cont c1 then 2%nat else 0%nat | _ => 0%nat end
    else if (224 <=? c0) && (c0 <=? 239) then
      match r with
      | c1 :: c2 :: _ =>
        let lo := if c0 =? 224 then 160 else 128 in
        let hi := if c0 =? 237 then 159 else 191 in
        if (lo <=? c1) && (c1 <=? hi) && is_cont c2 then 3%nat else 0%nat
      | _ => 0%nat
      end
    else if (240 <=? c0) && (c0 <=? 244) then
      match r with
      | c1 :: c2 :: c3 :: _ =>
        let lo := if c0 =? 240 then 144 else 128 in
        let hi := if c0 =? 244 then 143 else 191 in
        if (lo <=? c1) && (c1 <=? hi) && is_cont c2 && is_cont c3 then 4%nat else 0%nat
      | _ => 0%nat
      end
    else 0%nat
  end.

Fixpoint utf8_valid_f (fuel : nat) (s : bytes) : bool :=
  match fuel with
  | O => match s with [] => true | _ => false end
  | S f =>
    match s with
    | [] => true
    | _ => match utf8_width s with
           | O => false
           | w => utf8_valid_f f (skipn w s)
           end
    end
  end.
Definition utf8_valid (s : bytes) : bool := utf8_valid_f (length s) s.

(* ================= encoder ================= *)

Definition hexd (n : N) : N := if n <? 10 then 48 + n else 87 + n.   (* lower-case hex digit *)
Definition u00 (c : N) : bytes := [92; 117; 48; 48; hexd (c / 16); hexd (c mod 16)].   (* \u00XX *)
Definition REPL : bytes := [92; 117; 102; 102; 102; 100].                               (* the six characters backslash u f f f d *)

(* encodeState.string / appendString with escapeHTML = true, body without the quotes *)
Fixpoint enc_str_f (fuel : nat) (s : bytes) : bytes :=
  match fuel with
  | O => []
  | S f =>
    match s with
    | [] => []
    | c :: r =>
      if c <? 128 then
        (if (c =? 34) || (c =? 92) then [92; c]
         else if c =? 8 then [92; 98]
         else if c =? 12 then [92; 102]
         else if c =? 10 then [92; 110]
         else if c =? 13 then [92; 114]
         else if c =? 9 then [92; 116]
         else if (c <? 32) || (c =? 60) || (c =? 62) || (c =? 38) then u00 c
         else [c]) ++ enc_str_f f r
      else
        match utf8_width s with
        | O => REPL ++ enc_str_f f r
        | w =>
          let ch := firstn w s in
          (* U+2028 / U+2029 are always escaped *)
          (if bytes_eqb ch [226; 128; 168] then [92; 117; 50; 48; 50; 56]
           else if bytes_eqb ch [226; 128; 169] then [92; 117; 50; 48; 50; 57]
           else ch) ++ enc_str_f f (skipn w s)
        end
    end
  end.
Definition encode_string (s : bytes) : bytes := [34] ++ enc_str_f (length s) s ++ [34].

Fixpoint encode_value (v : jvalue) : bytes :=
  match v with
  | JNull => [110; 117; 108; 108]
  | JBool true => [116; 114; 117; 101]
  | JBool false => [102; 97; 108; 115; 101]
  | JNum tok => tok
  | JStr s => encode_string s
  | JArr l =>
    [91] ++ (fix ea (l : list jvalue) : bytes :=
               match l with
               | [] => []
               | [x] => encode_value x
               | x :: r => encode_value x ++ [44] ++ ea r
               end) l ++ [93]
  | JObj m =>
    [123] ++ (fix eo (l : list (bytes * jvalue)) : bytes :=
                match l with
                | [] => []
                | [(k, x)] => encode_string k ++ [58] ++ encode_value x
                | (k, x) :: r => encode_string k ++ [58] ++ encode_value x ++ [44] ++ eo r
                end) m ++ [125]
  end.

(* isValidNumber: optional '-', then 0 or a non-zero digit followed by digits, optional '.' digits+, optional e/E sign? digits+ *)
Definition is_dig (c : N) : bool := (48 <=? c) && (c <=? 57).
Definition digits1 (s : bytes) : option (bytes * bytes) :=      (* one or more digits: (digits, rest) *)
  match take_while is_dig s with [] => None | d => Some (d, drop_while is_dig s) end.
Definition num_rest (s : bytes) : option (bytes * bytes) :=     (* after the integer part: fraction and exponent *)
  let s1 := match s with
            | 46 :: r => match digits1 r with Some (d, k) => Some (46 :: d, k) | None => None end
            | _ => Some ([], s)
            end in
  match s1 with
  | None => None
  | Some (fr, s2) =>
    match s2 with
    | c :: r =>
      if (c =? 101) || (c =? 69) then
        match r with
        | sg :: r' =>
          if (sg =? 43) || (sg =? 45)
          then match digits1 r' with Some (d, k) => Some (fr ++ c :: sg :: d, k) | None => None end
          else match digits1 r with Some (d, k) => Some (fr ++ c :: d, k) | None => None end
        | [] => None
        end
      else Some (fr, s2)
    | [] => Some (fr, s2)
    end
  end.
(* scans a number literal at the head of s: Some (token, rest), or None when s does not start with one *)
Definition scan_number (s : bytes) : option (bytes * bytes) :=
  let '(sign, s0) := match s with 45 :: r => ([45], r) | _ => ([], s) end in
  match s0 with
  | c :: r =>
    if c =? 48 then
      match num_rest r with Some (t, k) => Some (sign ++ 48 :: t, k) | None => None end
    else if (49 <=? c) && (c <=? 57) then
      match num_rest (drop_while is_dig r) with
      | Some (t, k) => Some (sign ++ c :: take_while is_dig r ++ t, k)
      | None => None
      end
    else None
  | [] => None
  end.
Definition num_ok (tok : bytes) : bool :=
  match scan_number tok with Some (_, []) => true | _ => false end.

(* ================= scanner / parser (checkValid + value structure) ================= *)

(* parsed JSON text; strings keep their raw (still escaped) contents; object
   members remember where their value starts and ends in the source so that a
   json.RawMessage can be cut out verbatim *)
Inductive jv :=
| VNull | VBool (b : bool) | VNum (tok : bytes) | VStr (raw : bytes)
| VArr (l : list jv)
| VObj (m : list (bytes * jv * bytes * bytes)).   (* raw key, value, source at value start, source after value *)

Definition is_ws (c : N) : bool := (c =? 32) || (c =? 9) || (c =? 13) || (c =? 10).
Definition skip_ws (s : bytes) : bytes := drop_while is_ws s.
Definition is_hex (c : N) : bool :=
  is_dig c || ((97 <=? c) && (c <=? 102)) || ((65 <=? c) && (c <=? 70)).

(* string body after the opening quote: Some (raw contents, rest after the closing quote) *)
Fixpoint scan_string (fuel : nat) (s : bytes) : option (bytes * bytes) :=
  match fuel with
  | O => None
  | S f =>
    match s with
    | [] => None
    | 34 :: r => Some ([], r)
    | 92 :: e :: r =>
      if (e =? 34) || (e =? 92) || (e =? 47) || (e =? 98) || (e =? 102) || (e =? 110) || (e =? 114) || (e =? 116) then
        match scan_string f r with Some (a, k) => Some (92 :: e :: a, k) | None => None end
      else if e =? 117 then
        match r with
        | h1 :: h2 :: h3 :: h4 :: r' =>
          if is_hex h1 && is_hex h2 && is_hex h3 && is_hex h4 then
            match scan_string f r' with Some (a, k) => Some (92 :: 117 :: h1 :: h2 :: h3 :: h4 :: a, k) | None => None end
          else None
        | _ => None
        end
      else None
    | c :: r =>
      if c <? 32 then None
      else if c =? 92 then None
      else match scan_string f r with Some (a, k) => Some (c :: a, k) | None => None end
    end
  end.

Definition max_depth : N := 10000.

Definition strip_prefix (p s : bytes) : option bytes :=
  if is_prefix p s then Some (skipn (length p) s) else None.

(* value at the head of s (leading whitespace already skipped): Some (value, rest) *)
Fixpoint scan_value (fuel : nat) (depth : N) (s : bytes) {struct fuel} : option (jv * bytes) :=
  match fuel with
  | O => None
  | S f =>
    match s with
    | [] => None
    | 123 :: r =>                                      (* { *)
      if max_depth <? depth + 1 then None else
      match skip_ws r with
      | 125 :: k => Some (VObj [], k)
      | r1 => scan_members f (depth + 1) [] r1
      end
    | 91 :: r =>                                       (* [ *)
      if max_depth <? depth + 1 then None else
      match skip_ws r with
      | 93 :: k => Some (VArr [], k)
      | r1 => scan_elements f (depth + 1) [] r1
      end
    | 34 :: r =>
      match scan_string (S (length r)) r with
      | Some (raw, k) => Some (VStr raw, k)
      | None => None
      end
    | 116 :: 114 :: 117 :: 101 :: k => Some (VBool true, k)
    | 102 :: 97 :: 108 :: 115 :: 101 :: k => Some (VBool false, k)
    | 110 :: 117 :: 108 :: 108 :: k => Some (VNull, k)
    | _ =>
      match scan_number s with
      | Some (tok, k) => Some (VNum tok, k)
      | None => None
      end
    end
  end
(* members: s starts (after whitespace) at a key *)
with scan_members (fuel : nat) (depth : N) (acc : list (bytes * jv * bytes * bytes)) (s : bytes)
     {struct fuel} : option (jv * bytes) :=
  match fuel with
  | O => None
  | S f =>
    match s with
    | 34 :: r =>
      match scan_string (S (length r)) r with
      | None => None
      | Some (key, k1) =>
        match skip_ws k1 with
        | 58 :: k2 =>
          let vs := skip_ws k2 in
          match scan_value f depth vs with
          | None => None
          | Some (v, k3) =>
            let acc' := (key, v, vs, k3) :: acc in
            match skip_ws k3 with
            | 44 :: k4 => scan_members f depth acc' (skip_ws k4)
            | 125 :: k4 => Some (VObj (rev acc'), k4)
            | _ => None
            end
          end
        | _ => None
        end
      end
    | _ => None
    end
  end
with scan_elements (fuel : nat) (depth : N) (acc : list jv) (s : bytes) {struct fuel} : option (jv * bytes) :=
  match fuel with
  | O => None
  | S f =>
    match scan_value f depth s with
    | None => None
    | Some (v, k) =>
      match skip_ws k with
      | 44 :: k2 => scan_elements f depth (v :: acc) (skip_ws k2)
      | 93 :: k2 => Some (VArr (rev (v :: acc)), k2)
      | _ => None
      end
    end
  end.

(* whole document: optional whitespace, one value, optional whitespace *)
Definition jparse (s : bytes) : option jv :=
  let s0 := skip_ws s in
  match scan_value (S (length s0)) 0 s0 with
  | Some (v, k) => match skip_ws k with [] => Some v | _ => None end
  | None => None
  end.

Definition valid (s : bytes) : bool := match jparse s with Some _ => true | None => false end.

(* ================= unquote (decoding a string literal's contents) ================= *)

Definition hexv (c : N) : N :=
  if is_dig c then c - 48 else if (97 <=? c) && (c <=? 102) then c - 87 else c - 55.
Definition hex4 (a b c d : N) : N := ((hexv a * 16 + hexv b) * 16 + hexv c) * 16 + hexv d.

(* utf8.EncodeRune for a valid scalar value *)
Definition utf8_encode (r : N) : bytes :=
  if r <? 128 then [r]
  else if r <? 2048 then [192 + r / 64; 128 + r mod 64]
  else if r <? 65536 then [224 + r / 4096; 128 + (r / 64) mod 64; 128 + r mod 64]
  else [240 + r / 262144; 128 + (r / 4096) mod 64; 128 + (r / 64) mod 64; 128 + r mod 64].
Definition REPL_UTF8 : bytes := [239; 191; 189].

Definition is_surr (r : N) : bool := (55296 <=? r) && (r <? 57344).

Fixpoint unquote_f (fuel : nat) (s : bytes) : bytes :=
  match fuel with
  | O => []
  | S f =>
    match s with
    | [] => []
    | 92 :: 117 :: a :: b :: c :: d :: r =>
      let r1 := hex4 a b c d in
      if is_surr r1 then
        (* a valid pair is combined; anything else becomes U+FFFD *)
        match r with
        | 92 :: 117 :: a2 :: b2 :: c2 :: d2 :: r' =>
          let r2 := hex4 a2 b2 c2 d2 in
          if (r1 <? 56320) && (56320 <=? r2) && (r2 <? 57344)
          then utf8_encode (65536 + (r1 - 55296) * 1024 + (r2 - 56320)) ++ unquote_f f r'
          else REPL_UTF8 ++ unquote_f f r
        | _ => REPL_UTF8 ++ unquote_f f r
        end
      else utf8_encode r1 ++ unquote_f f r
    | 92 :: e :: r =>
      (if e =? 98 then [8] else if e =? 102 then [12] else if e =? 110 then [10]
       else if e =? 114 then [13] else if e =? 116 then [9] else [e]) ++ unquote_f f r
    | c :: r =>
      if c <? 128 then c :: unquote_f f r
      else match utf8_width s with
           | O => REPL_UTF8 ++ unquote_f f r
           | w => firstn w s ++ unquote_f f (skipn w s)
           end
    end
  end.
Definition unquote (raw : bytes) : bytes := unquote_f (length raw) raw.

(* value tree with decoded strings (json.Unmarshal into interface{} minus number conversion) *)
Fixpoint to_jvalue (v : jv) : jvalue :=
  match v with
  | VNull => JNull | VBool b => JBool b | VNum t => JNum t | VStr raw => JStr (unquote raw)
  | VArr l => JArr (map to_jvalue l)
  | VObj m => JObj (map (fun x => match x with (k, v', _, _) => (unquote k, to_jvalue v') end) m)
  end.
Definition parse (s : bytes) : option jvalue := option_map to_jvalue (jparse s).

(* ================= compact (Marshal of a json.RawMessage) ================= *)

(* drop whitespace outside strings; HTML-escape <,>,& and U+2028/9 everywhere; input must be valid *)
Fixpoint compact_f (instr esc : bool) (s : bytes) : bytes :=
  match s with
  | [] => []
  | c :: r =>
    let out := if (c =? 60) || (c =? 62) || (c =? 38) then u00 c else [c] in
    if instr then
      if esc then out ++ compact_f true false r
      else if c =? 92 then out ++ compact_f true true r
      else if c =? 34 then out ++ compact_f false false r
      else match s with
           | 226 :: 128 :: x :: r' =>
             if (x =? 168) || (x =? 169)
             then [92; 117; 50; 48; 50; if x =? 168 then 56 else 57] ++ compact_f true false r'
             else out ++ compact_f true false r
           | _ => out ++ compact_f true false r
           end
    else if is_ws c then compact_f false false r
    else if c =? 34 then out ++ compact_f true false r
    else out ++ compact_f false false r
  end.
Definition compact_raw (raw : bytes) : option bytes :=
  if valid raw then Some (compact_f false false raw) else None.

(* ================= struct decoding ================= *)

Inductive fkind := KString | KBool | KRaw | KStrList.
Inductive fval :=
| FString (s : bytes) | FBool (b : bool)
| FRaw (r : option bytes)               (* *json.RawMessage: nil or the verbatim source text *)
| FStrList (l : option (list bytes)).   (* []string: nil or elements *)

Definition zero_of (k : fkind) : fval :=
  match k with KString => FString [] | KBool => FBool false | KRaw => FRaw None | KStrList => FStrList None end.

(* ASCII lower-casing plus the two non-ASCII runes that fold onto ASCII letters:
   U+017F (c5 bf) ~ s and U+212A (e2 84 aa) ~ k *)
Fixpoint fold_key (s : bytes) : bytes :=
  match s with
  | [] => []
  | 197 :: 191 :: r => 115 :: fold_key r
  | 226 :: 132 :: 170 :: r => 107 :: fold_key r
  | c :: r => (if (65 <=? c) && (c <=? 90) then c + 32 else c) :: fold_key r
  end.

Fixpoint find_field {A} (key : bytes) (sch : list (bytes * A)) : option (nat * A) :=
  match sch with
  | [] => None
  | (n, a) :: r => if bytes_eqb n key then Some (O, a)
                   else match find_field key r with Some (i, a') => Some (S i, a') | None => None end
  end.
Fixpoint find_field_fold {A} (key : bytes) (sch : list (bytes * A)) : option (nat * A) :=
  match sch with
  | [] => None
  | (n, a) :: r => if bytes_eqb (fold_key n) (fold_key key) then Some (O, a)
                   else match find_field_fold key r with Some (i, a') => Some (S i, a') | None => None end
  end.

Fixpoint set_nth {A} (i : nat) (x : A) (l : list A) : list A :=
  match l, i with
  | [], _ => []
  | _ :: r, O => x :: r
  | y :: r, S j => y :: set_nth j x r
  end.

(* decode one member value into a field of kind k; (new value, type error?) ; old = current value *)
Definition decode_field (k : fkind) (old : fval) (v : jv) (src_start src_end : bytes) : fval * bool :=
  match v with
  | VNull => (match k with KRaw => FRaw None | KStrList => FStrList None | _ => old end, false)
  | _ =>
    match k with
    | KRaw => (FRaw (Some (firstn (length src_start - length src_end) src_start)), false)
    | KString => match v with VStr raw => (FString (unquote raw), false) | _ => (old, true) end
    | KBool => match v with VBool b0 => (FBool b0, false) | _ => (old, true) end
    | KStrList =>
      match v with
      | VArr l =>
        (* elements that are not strings are type errors; the element keeps its zero value *)
        let els := map (fun e => match e with VStr raw => (unquote raw, false) | VNull => ([], false) | _ => ([], true) end) l in
        (FStrList (Some (map fst els)), existsb snd els)
      | _ => (old, true)
      end
    end
  end.

Fixpoint decode_members (sch : list (bytes * fkind)) (m : list (bytes * jv * bytes * bytes))
                        (cur : list fval) (err : bool) : list fval * bool :=
  match m with
  | [] => (cur, err)
  | (rawkey, v, s0, s1) :: r =>
    let key := unquote rawkey in
    let hit := match find_field key sch with Some h => Some h | None => find_field_fold key sch end in
    match hit with
    | None => decode_members sch r cur err
    | Some (i, k) =>
      let '(nv, e) := decode_field k (nth i cur (zero_of k)) v s0 s1 in
      decode_members sch r (set_nth i nv cur) (err || e)
    end
  end.

(* json.Unmarshal(data, &struct).  None = syntax error (nothing decoded);
   Some (fields, err): the fields after decoding and whether an error is returned
   (type mismatches do not stop decoding) *)
Definition decode_struct_full (sch : list (bytes * fkind)) (data : bytes) : option (list fval * bool) :=
  let zeros := map (fun x => zero_of (snd x)) sch in
  match jparse data with
  | None => None
  | Some VNull => Some (zeros, false)
  | Some (VObj m) => Some (decode_members sch m zeros false)
  | Some _ => Some (zeros, true)
  end.

(* None = Unmarshal returned an error *)
Definition decode_struct (sch : list (bytes * fkind)) (data : bytes) : option (list fval) :=
  match decode_struct_full sch data with
  | Some (vals, false) => Some vals
  | _ => None
  end.
