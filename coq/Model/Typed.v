(* Model/Typed.v — executable model of the varlink JSON mapping for typed
   values: what the generated Go types (bool, int64, float64, string,
   json.RawMessage, []T, map[string]T, *T, struct with json tags, string for
   enums, the alias name for references) and encoding/json do to them.

   A tval is a Go value of the rendering of an IDL type; encode_typed is
   json.Marshal seen as a jvalue tree, decode_typed is json.Unmarshal into a
   fresh (zero) value of the rendered type.  Everything recurses on an explicit
   fuel argument (aliases may be recursive through optional/array/map); an
   exhausted fuel is None / false.

   Modelling decisions (see also the final comment of Proofs/TypedProofs.v):
   - numbers: the token is the value.  A float is any token with num_ok; an int
     is a token int64_tok_ok accepts ("-0" is not printed by Go, decoding it
     gives "0").
   - a JSON null decoded into a type that has no nil (bool, int, float, string,
     enum, struct) leaves the fresh zero value, as encoding/json does.
   - struct decoding: every member whose name matches a declared field is
     decoded (a type error in any of them fails the whole decode, as
     Unmarshal reports it), the last one wins; unknown members are ignored;
     names are matched exactly (no case folding).
   - map decoding: every member value is decoded, later duplicates win, the
     result is kept with strictly sorted keys (the order Marshal emits).
   No proofs in this file. *)
From VL Require Import Bytes Idl Json JsonDump.
Open Scope N_scope.

Inductive tval :=
| VBool (b : bool)
| VInt (tok : bytes)
| VFloat (tok : bytes)
| VStr (s : bytes)
| VEnum (s : bytes)
| VRaw (j : jvalue)
| VArr (l : option (list tval))
| VMap (m : option (list (bytes * tval)))
| VOpt (o : option tval)
| VStruct (fs : list (bytes * tval)).

(* ---------- int64 literals ---------- *)

Definition dec_val (ds : bytes) : N := fold_left (fun a c => a * 10 + (c - 48)) ds 0.

(* 0 | [1-9][0-9]* *)
Definition nat_tok_ok (ds : bytes) : bool :=
  match ds with
  | [] => false
  | [48] => true
  | c :: r => (49 <=? c) && (c <=? 57) && forallb is_dig r
  end.

(* strconv.FormatInt(v, 10) for some int64 v *)
Definition int64_tok_ok (tok : bytes) : bool :=
  match tok with
  | 45 :: ds => nat_tok_ok ds && negb (bytes_eqb ds [48]) && (dec_val ds <=? 9223372036854775808)
  | _ => nat_tok_ok tok && (dec_val tok <=? 9223372036854775807)
  end.

(* strconv.ParseInt on a JSON number token, printed back: only "-0" changes *)
Definition canon_int (tok : bytes) : option bytes :=
  if int64_tok_ok tok then Some tok
  else if bytes_eqb tok [45; 48] then Some [48]
  else None.

(* ---------- generic helpers ---------- *)

Fixpoint all_opt {A B : Type} (f : A -> option B) (l : list A) : option (list B) :=
  match l with
  | [] => Some []
  | x :: r => match f x with
              | None => None
              | Some y => match all_opt f r with None => None | Some ys => Some (y :: ys) end
              end
  end.

Fixpoint all_opt_snd {A B : Type} (f : A -> option B) (l : list (bytes * A)) : option (list (bytes * B)) :=
  match l with
  | [] => Some []
  | (k, x) :: r => match f x with
                   | None => None
                   | Some y => match all_opt_snd f r with None => None | Some ys => Some ((k, y) :: ys) end
                   end
  end.

Fixpoint last_opt {A : Type} (l : list A) : option A :=
  match l with
  | [] => None
  | x :: r => match r with [] => Some x | _ :: _ => last_opt r end
  end.

Fixpoint lookup_alias (n : bytes) (al : list (bytes * ty)) : option ty :=
  match al with
  | [] => None
  | (k, t) :: r => if bytes_eqb n k then Some t else lookup_alias n r
  end.

Fixpoint nodup_names (l : list bytes) : bool :=
  match l with
  | [] => true
  | x :: r => negb (existsb (bytes_eqb x) r) && nodup_names r
  end.

(* ---------- Go maps: strictly sorted association lists ---------- *)

Fixpoint sorted_gt {A : Type} (lo : bytes) (l : list (bytes * A)) : bool :=
  match l with
  | [] => true
  | (k, _) :: r => bytes_ltb lo k && sorted_gt k r
  end.
Definition sorted_keys {A : Type} (l : list (bytes * A)) : bool :=
  match l with [] => true | (k, _) :: r => sorted_gt k r end.

(* insert unless the key is already there *)
Fixpoint ins_keep {A : Type} (k : bytes) (v : A) (l : list (bytes * A)) : list (bytes * A) :=
  match l with
  | [] => [(k, v)]
  | (k', v') :: r =>
    if bytes_ltb k k' then (k, v) :: l
    else if bytes_eqb k k' then l
    else (k', v') :: ins_keep k v r
  end.
(* members in source order -> the map: fold from the right, so that of two
   equal keys the later one is inserted first and kept *)
Definition canon_map {A : Type} (l : list (bytes * A)) : list (bytes * A) :=
  fold_right (fun kv acc => ins_keep (fst kv) (snd kv) acc) [] l.

(* ---------- structs ---------- *)

(* a field tagged ",omitempty" (exactly the fields whose IDL type is ?T) holding nil *)
Definition omitted (t : ty) (v : tval) : bool :=
  is_maybe t && match v with VOpt None => true | _ => false end.

Fixpoint fields_ok (ok : ty -> tval -> bool) (fs : list (bytes * ty)) (vs : list (bytes * tval)) : bool :=
  match fs, vs with
  | [], [] => true
  | (n, t) :: fs', (n', v) :: vs' => bytes_eqb n n' && ok t v && fields_ok ok fs' vs'
  | _, _ => false
  end.

Fixpoint enc_fields (enc : ty -> tval -> option jvalue) (fs : list (bytes * ty)) (vs : list (bytes * tval))
  : option (list (bytes * jvalue)) :=
  match fs, vs with
  | [], [] => Some []
  | (n, t) :: fs', (_, v) :: vs' =>
    if omitted t v then enc_fields enc fs' vs'
    else match enc t v with
         | None => None
         | Some j => match enc_fields enc fs' vs' with None => None | Some m => Some ((n, j) :: m) end
         end
  | _, _ => None
  end.

(* the values of all members called n, in source order *)
Definition lookup_all (n : bytes) (m : list (bytes * jvalue)) : list jvalue :=
  map snd (filter (fun kv => bytes_eqb n (fst kv)) m).

Fixpoint dec_fields (dec : ty -> jvalue -> option tval) (zero : ty -> option tval)
  (fs : list (bytes * ty)) (m : list (bytes * jvalue)) : option (list (bytes * tval)) :=
  match fs with
  | [] => Some []
  | (n, t) :: fs' =>
    match all_opt (dec t) (lookup_all n m) with
    | None => None
    | Some xs =>
      match (match last_opt xs with Some x => Some x | None => zero t end) with
      | None => None
      | Some v => match dec_fields dec zero fs' m with None => None | Some r => Some ((n, v) :: r) end
      end
    end
  end.

Fixpoint zero_fields (zero : ty -> option tval) (fs : list (bytes * ty)) : option (list (bytes * tval)) :=
  match fs with
  | [] => Some []
  | (n, t) :: fs' => match zero t with
                     | None => None
                     | Some v => match zero_fields zero fs' with None => None | Some r => Some ((n, v) :: r) end
                     end
  end.

(* values that Marshal prints as null: below a pointer they cannot be told from the nil pointer *)
Definition nullish (v : tval) : bool :=
  match v with
  | VRaw JNull | VArr None | VMap None | VOpt None => true
  | _ => false
  end.

(* ---------- typing ---------- *)

(* v is a canonical Go value of the rendering of t:
   maps have strictly sorted keys; a non-nil pointer does not point at something
   that prints as null; struct values carry exactly the declared names, which
   are distinct. *)
Fixpoint has_type (fuel : nat) (al : list (bytes * ty)) (t : ty) (v : tval) {struct fuel} : bool :=
  match fuel with
  | O => false
  | S k =>
    match t, v with
    | TBool, VBool _ => true
    | TInt, VInt tok => int64_tok_ok tok
    | TFloat, VFloat tok => num_ok tok
    | TString, VStr _ => true
    | TEnum _, VEnum _ => true
    | TObject, VRaw _ => true
    | TArray _, VArr None => true
    | TArray e, VArr (Some l) => forallb (has_type k al e) l
    | TMap _, VMap None => true
    | TMap e, VMap (Some m) => sorted_keys m && forallb (fun kv => has_type k al e (snd kv)) m
    | TMaybe _, VOpt None => true
    | TMaybe e, VOpt (Some x) => negb (nullish x) && has_type k al e x
    | TStruct fs, VStruct vs => nodup_names (map fst fs) && fields_ok (has_type k al) fs vs
    | TAlias n, _ => match lookup_alias n al with Some body => has_type k al body v | None => false end
    | _, _ => false
    end
  end.

(* ---------- zero values ---------- *)

Fixpoint zero_of (fuel : nat) (al : list (bytes * ty)) (t : ty) {struct fuel} : option tval :=
  match fuel with
  | O => None
  | S k =>
    match t with
    | TBool => Some (VBool false)
    | TInt => Some (VInt [48])
    | TFloat => Some (VFloat [48])
    | TString => Some (VStr [])
    | TEnum _ => Some (VEnum [])
    | TObject => Some (VRaw JNull)
    | TArray _ => Some (VArr None)
    | TMap _ => Some (VMap None)
    | TMaybe _ => Some (VOpt None)
    | TStruct fs => if nodup_names (map fst fs)
                    then option_map VStruct (zero_fields (zero_of k al) fs) else None
    | TAlias n => match lookup_alias n al with Some body => zero_of k al body | None => None end
    end
  end.

(* ---------- json.Marshal ---------- *)

Fixpoint encode_typed (fuel : nat) (al : list (bytes * ty)) (t : ty) (v : tval) {struct fuel} : option jvalue :=
  match fuel with
  | O => None
  | S k =>
    match t, v with
    | TBool, VBool x => Some (JBool x)
    | TInt, VInt tok => Some (JNum tok)
    | TFloat, VFloat tok => Some (JNum tok)
    | TString, VStr s => Some (JStr s)
    | TEnum _, VEnum s => Some (JStr s)
    | TObject, VRaw j => Some j
    | TArray _, VArr None => Some JNull
    | TArray e, VArr (Some l) => option_map JArr (all_opt (encode_typed k al e) l)
    | TMap _, VMap None => Some JNull
    | TMap e, VMap (Some m) => option_map JObj (all_opt_snd (encode_typed k al e) m)
    | TMaybe _, VOpt None => Some JNull
    | TMaybe e, VOpt (Some x) => encode_typed k al e x
    | TStruct fs, VStruct vs => option_map JObj (enc_fields (encode_typed k al) fs vs)
    | TAlias n, _ => match lookup_alias n al with Some body => encode_typed k al body v | None => None end
    | _, _ => None
    end
  end.

(* ---------- json.Unmarshal into a fresh value ---------- *)

Fixpoint decode_typed (fuel : nat) (al : list (bytes * ty)) (t : ty) (j : jvalue) {struct fuel} : option tval :=
  match fuel with
  | O => None
  | S k =>
    match t with
    | TBool => match j with JBool x => Some (VBool x) | JNull => Some (VBool false) | _ => None end
    | TInt => match j with
              | JNum tok => option_map VInt (canon_int tok)
              | JNull => Some (VInt [48])
              | _ => None
              end
    | TFloat => match j with
                | JNum tok => if num_ok tok then Some (VFloat tok) else None
                | JNull => Some (VFloat [48])
                | _ => None
                end
    | TString => match j with JStr s => Some (VStr s) | JNull => Some (VStr []) | _ => None end
    | TEnum _ => match j with JStr s => Some (VEnum s) | JNull => Some (VEnum []) | _ => None end
    | TObject => Some (VRaw j)
    | TArray e => match j with
                  | JNull => Some (VArr None)
                  | JArr l => option_map (fun xs => VArr (Some xs)) (all_opt (decode_typed k al e) l)
                  | _ => None
                  end
    | TMap e => match j with
                | JNull => Some (VMap None)
                | JObj m => option_map (fun xs => VMap (Some (canon_map xs))) (all_opt_snd (decode_typed k al e) m)
                | _ => None
                end
    | TMaybe e => match j with
                  | JNull => Some (VOpt None)
                  | _ => option_map (fun x => VOpt (Some x)) (decode_typed k al e j)
                  end
    | TStruct fs => match j with
                    | JNull => zero_of (S k) al (TStruct fs)
                    | JObj m => if nodup_names (map fst fs)
                                then option_map VStruct (dec_fields (decode_typed k al) (zero_of k al) fs m)
                                else None
                    | _ => None
                    end
    | TAlias n => match lookup_alias n al with Some body => decode_typed k al body j | None => None end
    end
  end.

(* ---------- the parameters object of a call ---------- *)

Fixpoint tdepth (v : tval) : nat :=
  match v with
  | VArr (Some l) => S (fold_right (fun x a => Nat.max (tdepth x) a) O l)
  | VMap (Some m) => S (fold_right (fun kv a => Nat.max (tdepth (snd kv)) a) O m)
  | VOpt (Some x) => S (tdepth x)
  | VStruct fs => S (fold_right (fun kv a => Nat.max (tdepth (snd kv)) a) O fs)
  | _ => 1%nat
  end.

(* every level of the value costs one unit of fuel, plus at most length al
   alias hops before the next level (a longer chain of bare aliases is a cycle) *)
Definition enough_fuel (al : list (bytes * ty)) (v : tval) : nat :=
  (S (tdepth v) * S (length al))%nat.

Definition call_params (al : list (bytes * ty)) (fields : list (bytes * ty)) (args : list tval) : option jvalue :=
  let v := VStruct (combine (map fst fields) args) in
  encode_typed (enough_fuel al v) al (TStruct fields) v.
