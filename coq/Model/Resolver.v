(* Model/Resolver.v — resolver.go: the requests Resolver.Resolve / Resolver.GetInfo send. *)
From VL Require Import Bytes Lit Lit2 Json Service Client.
Open Scope N_scope.
(* Resolve never asks the resolver for itself *)
Definition resolve_is_local (iface : bytes) : bool := bytes_eqb iface org_varlink_resolver.
Definition resolve_request (iface : bytes) : send_res :=
  client_send 0 m_resolver_Resolve (PEnc ([123] ++ member s_interface (encode_string iface) ++ [125])).
Definition resolver_info_request : send_res := client_send 0 m_resolver_GetInfo (call_params PNone).
