(* Extract.v — extraction of the executable models to OCaml.
   ExtrOcamlBasic only: bool, option, unit, list, prod, sumbool, sumor map to
   OCaml's own types; nat, N, Z, positive stay extracted datatypes. *)
From Coq Require Extraction.
From Coq Require Import ExtrOcamlBasic.
From VL Require Import Bytes Idl IdlDump Wire.
Extraction "model.ml" idl_case idl_oracle parse dump_presult
  run_ops read_all split_frames frame.
