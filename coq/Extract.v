(* Extract.v — extraction of the executable models to OCaml.
   ExtrOcamlBasic only: bool, option, unit, list, prod, sumbool, sumor map to
   OCaml's own types; nat, N, Z, positive stay extracted datatypes. *)
From Coq Require Extraction.
From Coq Require Import ExtrOcamlBasic.
From VL Require Import Bytes Lit Lit2 Idl IdlDump Wire Json JsonDump Service Client Resolver Addr Lifecycle Ctxio Gen Typed RegLife.
Extraction "model.ml" idl_case idl_oracle parse dump_presult
  run_ops read_all split_frames frame
  marshal_value compact_raw valid json_parse_case json_compact_case json_struct_case sort_members
  decode_call enc_params encode_reply call_schema reply_schema iface_schema info_schema descr_schema
  address_schema resolver_info_schema s_method s_parameter lit_null
  serve_conn spec_conn run_system client_send client_receive dispatch_error helper_of
  generate decode_typed encode_typed has_type encode_value decode_struct
  c_init cstep outcomes
  l_init lstep get_obj cur_obj conn_st
  svc_init svc_bind svc_start svc_stop client_connect remove_file svc_parse client_parse activation_fd choose_listener atoi
  org_varlink_service m_GetInfo step_conn cs_init cut_at stream_of dump_fval org_varlink_resolver resolve_request resolver_info_request get_info_request get_descr_request call_params new_service register set_running builtin route handle_call
  rl_init rl_step rl_run events_of busy.
