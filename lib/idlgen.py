# idlgen.py — generators for interface descriptions (C05, C06, C07, C08, C09):
# syntax trees, layouts, canonical dumps, token sequences, mutations.
import itertools
import re

BUILTINS = {"b": "bool", "i": "int", "f": "float", "s": "string", "o": "object"}

# ---- trees: ('b',) ('A',t) ('Q',t) ('D',t) ('N',name) ('S',[(name,t)..]) ('E',[name..]) ----


def hx(s):
    if isinstance(s, str):
        s = s.encode("latin-1")
    return s.hex()


def dump_ty(t):
    k = t[0]
    if k in BUILTINS:
        return k
    if k in "AQD":
        return k + dump_ty(t[1])
    if k == "N":
        return "N" + hx(t[1]) + "."
    if k == "S":
        return "S(" + ",".join(hx(n) + ":" + dump_ty(ft) for n, ft in t[1]) + ")"
    if k == "E":
        return "E(" + ",".join(hx(n) for n in t[1]) + ")"
    raise ValueError(t)


def dump_member(m, docs=True):
    kind, name, doc = m[0], m[1], m[2]
    d = hx(doc) if docs else ""
    if kind == "T":
        return "T%s.%s.%s" % (hx(name), d, dump_ty(m[3]))
    if kind == "M":
        return "M%s.%s.%s>%s" % (hx(name), d, dump_ty(m[3]), dump_ty(m[4]))
    return "X%s.%s.%s" % (hx(name), d, dump_ty(m[3]) if m[3] is not None else "-")


def dump_idl(idl, docs=True):
    name, doc, members = idl
    def lst(ms):
        return "[" + ";".join(dump_member(m, docs) for m in ms) + "]"
    return "OK I%s.%s.D1%s%s%s%s" % (hx(name), hx(doc) if docs else "", lst(members),
                                      lst([m for m in members if m[0] == "T"]),
                                      lst([m for m in members if m[0] == "M"]),
                                      lst([m for m in members if m[0] == "X"]))


_doc_re = re.compile(r"([TMXI][0-9a-f]*\.)[0-9a-f]*\.")


def erase_docs(line):
    """Drop the documentation strings from a dump line (layout-independence is about the tree minus docs)."""
    return _doc_re.sub(lambda m: m.group(1) + ".", line)


# ---- rendering ----
# A description is a list of tokens with a gap class between consecutive tokens:
#   'n' no gap allowed, 'o' optional gap, 'r' required (non-empty) gap.

def ty_tokens(t):
    """-> list of (token, gap_after_class) ; the last gap class is a placeholder"""
    k = t[0]
    if k in BUILTINS:
        return [(BUILTINS[k], "o")]
    if k == "N":
        return [(t[1], "o")]
    if k == "A":
        return [("[", "n"), ("]", "n")] + ty_tokens(t[1])
    if k == "D":
        return [("[", "n"), ("string", "n"), ("]", "n")] + ty_tokens(t[1])
    if k == "Q":
        return [("?", "n")] + ty_tokens(t[1])
    if k == "S":
        out = [("(", "o")]
        for i, (n, ft) in enumerate(t[1]):
            if i:
                out.append((",", "o"))
            out.append((n, "o"))
            out.append((":", "o"))
            out += ty_tokens(ft)
        out.append((")", "o"))
        return out
    if k == "E":
        out = [("(", "o")]
        for i, n in enumerate(t[1]):
            if i:
                out.append((",", "o"))
            out.append((n, "o"))
        out.append((")", "o"))
        return out
    raise ValueError(t)


def is_word(tok):
    return tok[-1:].isalnum() or tok[-1:] == "_"


def starts_word(tok):
    return tok[:1].isalnum()


def member_tokens(m):
    kind, name = m[0], m[1]
    if kind == "T":
        return [("type", "r"), (name, "o")] + ty_tokens(m[3])
    if kind == "M":
        return [("method", "r"), (name, "o")] + ty_tokens(m[3]) + [("->", "o")] + ty_tokens(m[4])
    if m[3] is None:
        return [("error", "r"), (name, "o")]
    return [("error", "r"), (name, "o")] + ty_tokens(m[3])


def fix_gaps(toks):
    """Upgrade optional gaps to required where two word tokens would merge."""
    out = []
    for i, (t, g) in enumerate(toks):
        if g == "o" and i + 1 < len(toks) and is_word(t) and starts_word(toks[i + 1][0]):
            g = "r"
        out.append((t, g))
    return out


def gap_items(rng, allow_lf=True, allow_comment=True):
    items = [" ", " ", "\t", "\r"]
    if allow_lf:
        items += ["\n", "\n", "\r\n"]
    r = rng.random()
    if allow_comment and allow_lf and r < 0.25:
        return "#" + rng.choice(COMMENT_TEXTS) + "\n"
    return rng.choice(items)


COMMENT_TEXTS = ["", " ", " doc", "x", " method Evil() -> ()", " type T (a: int)", " (", " )", "#", " ## a # b", " tab\there",
                 " caf\xe9 \xff\xfe", " error E", "interface a.b", " ->", " \x00nul", " trailing ", "`tick`"]


def gap(rng, cls, style):
    """style: 'min' (single space where required), 'rand' (anything permitted)"""
    if cls == "n":
        return ""
    if style == "min":
        return " " if cls == "r" else ""
    if style == "lines":
        return "\n" if cls == "r" else rng.choice(["", " ", "\n  "])
    n = rng.choice([0, 0, 1, 1, 2, 3, 6]) if cls == "o" else rng.choice([1, 1, 2, 3, 6])
    return "".join(gap_items(rng) for _ in range(n))


def render(idl, rng, style="rand", final_comment=True):
    """Render with arbitrary layout between tokens.  Docs are NOT controlled here
    (compare trees minus docs)."""
    name, _doc, members = idl
    toks = [("interface", "r"), (name, "o")]
    for m in members:
        toks += member_tokens(m)
    toks = fix_gaps(toks)
    s = gap(rng, "o", style)
    for i, (t, g) in enumerate(toks):
        s += t
        if i + 1 < len(toks):
            s += gap(rng, g, style)
    s += gap(rng, "o", style)
    if style == "rand" and final_comment and rng.random() < 0.15:
        s += "#" + rng.choice(COMMENT_TEXTS)      # comment ending at end of input, no newline
    return s.encode("latin-1")


def doc_text(rng):
    """-> (list of raw comment lines after '#', expected doc)"""
    n = rng.choice([1, 1, 2, 3])
    raws = []
    for _ in range(n):
        raws.append(rng.choice(["", " ", " line", "nospace", "  two", " method X() -> ()", " caf\xe9", " a # b", " cr\r", " `q`"]))
    texts = [r[1:] if r.startswith(" ") else r for r in raws]
    while texts and texts[0] == "":
        texts.pop(0)
    return raws, "\n".join(texts)


def render_docs(idl, rng):
    """Doc-normal layout: every doc block sits directly above its member, the line
    above the block ends without a comment, and only blanks separate keyword and name.
    Returns (text, idl with the expected docs filled in)."""
    name, _doc, members = idl

    def block(first):
        if rng.random() < 0.3:
            return "", ""
        raws, doc = doc_text(rng)
        ind = rng.choice(["", "", "  ", "\t"])
        return "".join(ind + "#" + r + "\n" for r in raws), doc

    def junk(prev_exists):
        j = "".join(gap_items(rng) for _ in range(rng.choice([0, 0, 1, 2, 4])))
        if prev_exists or j:
            j += "\n"
        return j

    def kwgap():
        return "".join(rng.choice([" ", " ", "\t", "\r"]) for _ in range(rng.choice([1, 1, 2])))

    s = junk(False)
    blk, idoc = block(True)
    s += blk + rng.choice(["", " ", "\t"]) + "interface" + kwgap() + name
    out_members = []
    for m in members:
        toks = fix_gaps(member_tokens(m))
        blk, mdoc = block(False)
        s += junk(True) + blk + rng.choice(["", "  ", "\t"]) + toks[0][0] + kwgap() + toks[1][0]
        for i in range(1, len(toks) - 1):
            s += gap(rng, toks[i][1], "rand") + toks[i + 1][0]
        out_members.append((m[0], m[1], mdoc) + tuple(m[3:]))
    s += gap(rng, "o", "rand")
    return s.encode("latin-1"), (name, idoc, out_members)


# ---- random and bounded-exhaustive trees ----

FIELD_NAMES = ["a", "b", "c", "x", "foo", "f_1", "type", "in", "bB9_", "interface", "s", "string", "m"]
TYPE_NAMES = ["T", "U", "Foo", "B4r", "Z", "Int", "String", "Type"]
IFACE_NAMES = ["a.b", "org.example.more", "com.example.a-b.c1", "A.B", "xn--lgbbat1ad8j.example.algeria", "a.b-c-d", "a.0", "xn--a.b",
               "org.varlink.certification", "a.b1", "x.y.z.w"]


def rand_ty(rng, depth, allow_maybe=True):
    r = rng.random()
    if depth <= 0 or r < 0.35:
        r2 = rng.random()
        if r2 < 0.7:
            return (rng.choice("bifso"),)
        return ("N", rng.choice(TYPE_NAMES))
    r = rng.random()
    if r < 0.2:
        return ("A", rand_ty(rng, depth - 1))
    if r < 0.35:
        return ("D", rand_ty(rng, depth - 1))
    if r < 0.5 and allow_maybe:
        return ("Q", rand_ty(rng, depth - 1, allow_maybe=False))
    if r < 0.85:
        return rand_struct(rng, depth - 1)
    names = rng.sample(FIELD_NAMES, rng.choice([1, 1, 2, 3]))
    return ("E", names)


def rand_struct(rng, depth, maxf=4):
    n = rng.choice([0, 1, 1, 2, 2, 3, maxf])
    names = rng.sample(FIELD_NAMES, n)
    return ("S", [(nm, rand_ty(rng, depth)) for nm in names])


def rand_idl(rng, depth=3, max_members=6):
    n = rng.choice([1, 1, 2, 3, 4, max_members])
    names = rng.sample(TYPE_NAMES + ["M1", "M2", "Ping", "Get9", "E1", "NotFound"], n)
    members = []
    for nm in names:
        k = rng.random()
        if k < 0.3:
            members.append(("T", nm, "", rand_ty(rng, depth)))
        elif k < 0.7:
            members.append(("M", nm, "", rand_struct(rng, depth - 1), rand_struct(rng, depth - 1)))
        else:
            r = rng.random()
            members.append(("X", nm, "", None if r < 0.35 else rand_struct(rng, depth - 1)))
    if not any(m[0] == "M" for m in members):
        members.insert(rng.randrange(len(members) + 1), ("M", "Mz", "", ("S", []), ("S", [])))
    return (rng.choice(IFACE_NAMES), "", members)


def enum_types(depth):
    """All types up to a nesting depth over a small alphabet (bounded-exhaustive)."""
    base = [("b",), ("i",), ("f",), ("s",), ("o",), ("N", "T")]
    if depth == 0:
        return base
    sub = enum_types(depth - 1)
    out = list(base)
    for e in sub:
        out.append(("A", e))
        out.append(("D", e))
        if e[0] != "Q":
            out.append(("Q", e))
        out.append(("S", [("a", e)]))
    out.append(("S", []))
    out.append(("E", ["a"]))
    out.append(("E", ["a", "b"]))
    for e1, e2 in itertools.product(sub[:8], sub[:8]):
        out.append(("S", [("a", e1), ("b", e2)]))
    return out


def positions(t):
    """The descriptions that put type t at every position (alias body, method in/out field, error parameter, nested)."""
    e = ("S", [])
    me = ("M", "M", "", e, e)
    return [
        ("a.b", "", [("T", "T", "", t), me]),
        ("a.b", "", [("M", "M", "", ("S", [("x", t)]), e)]),
        ("a.b", "", [("M", "M", "", e, ("S", [("y", t)]))]),
        ("a.b", "", [me, ("X", "E", "", ("S", [("z", t)]))]),
        ("a.b", "", [("T", "T", "", ("S", [("n", ("A", ("S", [("w", t)])))])), me]),
    ]


# ---- token sequences and mutations ----

TOKENS = ["interface", "a.b", "type", "method", "error", "T", "M", "x", "y", "int", "string", "(", ")", ":", ",", "->",
          "?", "[]", "[string]", "[", "]", "#c\n", "\n", " ", "-", ">", "#", "bool", "\t", "9", "_", "X-", "."]


def token_split(text):
    """Split a description into tokens (words, punctuation, comments, single blanks) for token-level mutations."""
    return [m.group(0) for m in re.finditer(rb"#[^\n]*\n?|[A-Za-z0-9_.]+|->|\[\]|\[string\]|[ \t\r\n]|.", text, re.S)]


def token_mutations(text, rng, limit=None):
    toks = token_split(text)
    out = []
    alphabet = [t.encode() for t in TOKENS]
    idx = list(range(len(toks)))
    for i in idx:
        out.append(b"".join(toks[:i] + toks[i + 1:]))                       # deletion
        out.append(b"".join(toks[:i] + [rng.choice(alphabet)] + toks[i:]))  # insertion
        out.append(b"".join(toks[:i] + [rng.choice(alphabet)] + toks[i + 1:]))  # substitution
        if i + 1 < len(toks):
            out.append(b"".join(toks[:i] + [toks[i + 1], toks[i]] + toks[i + 2:]))  # transposition
    if limit and len(out) > limit:
        out = rng.sample(out, limit)
    return out


def byte_mutations(text, rng, n):
    out = []
    for _ in range(n):
        bts = bytearray(text)
        for _ in range(rng.choice([1, 1, 2, 3])):
            op = rng.random()
            p = rng.randrange(len(bts) + 1)
            if op < 0.4 and len(bts):
                bts[min(p, len(bts) - 1)] = rng.choice([0, 9, 10, 13, 32, 35, 40, 41, 44, 45, 46, 58, 62, 63, 91, 93, 95, 48, 65, 97, 128, 255])
            elif op < 0.7:
                bts[p:p] = bytes([rng.choice([0, 9, 10, 13, 32, 35, 40, 41, 44, 45, 46, 58, 62, 63, 91, 93, 95, 48, 65, 97, 128, 255])])
            elif len(bts):
                del bts[min(p, len(bts) - 1)]
        out.append(bytes(bts))
    return out


def every_byte_everywhere(text, positions=None):
    """substitute / insert every byte value 0..255 at every offset of a (short) description"""
    out = []
    pos = range(len(text) + 1) if positions is None else positions
    for p in pos:
        for v in range(256):
            out.append(text[:p] + bytes([v]) + text[p:])
            if p < len(text):
                out.append(text[:p] + bytes([v]) + text[p + 1:])
    return out


CERT = None


def repo_descriptions():
    """Descriptions shipped in /repo (certification interface, org.varlink.service)."""
    out = []
    try:
        out.append(open("/repo/cmd/varlink-go-certification/orgvarlinkcertification/org.varlink.certification.varlink", "rb").read())
    except OSError:
        pass
    try:
        src = open("/repo/varlink/orgvarlinkservice.go").read()
        m = re.search(r"VarlinkGetDescription\(\) string \{\s*return `([^`]*)`", src)
        if m:
            out.append(m.group(1).encode())
    except OSError:
        pass
    return out
