# jsongen.py — generators for JSON values, texts and varlink frames.
import json

ADV_STRINGS = [b"", b"a", b"hello", b"\x00", b"a\x00b", b'"', b"\\", b'q"uo\\te', b"\x01\x02\x1f", b"\b\f\n\r\t", b"\x7f", b"<>&", b"</script>",
               "café".encode(), "  ".encode(), "\U0001F600".encode(), "퟿".encode(), b"\xff", b"\xc3", b"\xc3\x28",
               b"\xe2\x80", b"\xed\xa0\x80", b"\xf4\x90\x80\x80", b"\xc0\x80", b"\xf0\x9f\x98", "�".encode(), b"\xef\xbf\xbd\xff",
               "ſK".encode(), b"method", b"org.varlink.service", b" sp ace ", b"{}", b"[1,2]", b"nul\x00l\x00", "日本語".encode()]
NUMS = [b"0", b"-0", b"1", b"-1", b"42", b"9007199254740993", b"18446744073709551616", b"-9223372036854775808", b"1.5", b"-1.5e10", b"1E+2",
        b"1e-2", b"0.000001", b"123456789012345678901234567890", b"1.0", b"2e0", b"0e0",
        # outside float64: a decoder that goes through float64 (interface{} / map decoding) rejects or mangles these
        b"1e400", b"-2.5E+999", b"1" + b"0" * 310, b"1e-400", b"179769313486231580793728971405303415079934132710037826936173778980444968292764750946649017977587207096330286416692887910946555547851940402630657488671505820681908902000708383676273854845817711531764475730270069855571366959622842914819860834936475292719074168444365510704342711559699508093042880177904174497792"]
BAD_NUMS = [b"01", b"1.", b".5", b"+1", b"1e", b"--1", b"0x10", b"NaN", b"1 ", b"1,2"]
KEYS = [b"a", b"b", b"k", b"", b"method", b"parameters", b"x y", b'q"', b"\x00", "ké".encode(), b"B", b"aa", b"A"]


def hx(b):
    return b.hex()


def rand_string(rng):
    r = rng.random()
    if r < 0.5:
        return rng.choice(ADV_STRINGS)
    if r < 0.8:
        return bytes(rng.choice(b"abcXYZ 019_-./") for _ in range(rng.choice([1, 3, 8, 20])))
    return bytes(rng.randrange(256) for _ in range(rng.choice([1, 2, 4, 9])))


def rand_value(rng, depth=3, maps=True, badnum=False):
    """-> (description, python-structure) in the language of harness/vt/values.go"""
    r = rng.random()
    if depth <= 0 or r < 0.45:
        k = rng.random()
        if k < 0.1:
            return "N"
        if k < 0.2:
            return rng.choice(["T", "F"])
        if k < 0.45:
            if badnum and rng.random() < 0.3:
                return "D" + hx(rng.choice(BAD_NUMS)) + ";"
            return "D" + hx(rng.choice(NUMS)) + ";"
        return "S" + hx(rand_string(rng)) + ";"
    if r < 0.7:
        n = rng.choice([0, 1, 2, 3, 5])
        return "[" + ",".join(rand_value(rng, depth - 1, maps, badnum) for _ in range(n)) + "]"
    n = rng.choice([0, 1, 2, 3, 4])
    keys = [rng.choice(KEYS) if rng.random() < 0.7 else rand_string(rng) for _ in range(n)]
    body = ",".join(hx(k) + ":" + rand_value(rng, depth - 1, maps, badnum) for k in keys)
    if maps and rng.random() < 0.3:
        return "M{" + body + "}"
    return "{" + body + "}"


def rand_object(rng, depth=3, maps=True):
    n = rng.choice([0, 1, 2, 3, 4])
    keys = []
    for _ in range(n):
        k = rng.choice(KEYS) if rng.random() < 0.7 else rand_string(rng)
        keys.append(k)
    return "{" + ",".join(hx(k) + ":" + rand_value(rng, depth - 1, maps) for k in keys) + "}"


def big_value(rng, kind, small=False):
    if kind == "bigstring":
        n = rng.choice([70000, 1 << 20, 3 << 20]) if not small else rng.choice([70000, 300000])
        unit = rng.choice([b"a", b"\x00", b'"', "é".encode(), b"<", b"\xff"])
        return "S" + hx(unit * (n // len(unit))) + ";"
    if kind == "deep":
        n = rng.choice([100, 1000, 2000])
        return "[" * n + "N" + "]" * n
    if kind == "wide":
        n = rng.choice([1000, 20000])
        return "[" + ",".join("D" + hx(rng.choice(NUMS)) + ";" for _ in range(n)) + "]"
    raise ValueError(kind)


# ---- JSON texts ----

WS = [b"", b"", b" ", b"\n", b"\t", b"\r\n", b"  "]


def esc_string(rng, s):
    """A JSON string literal for arbitrary bytes using random escape styles (always valid JSON)."""
    out = b'"'
    i = 0
    while i < len(s):
        c = s[i]
        r = rng.random()
        if c < 0x20 or c in (0x22, 0x5c):
            short = {8: b"\\b", 12: b"\\f", 10: b"\\n", 13: b"\\r", 9: b"\\t", 0x22: b'\\"', 0x5c: b"\\\\"}
            if c in short and r < 0.6:
                out += short[c]
            else:
                out += b"\\u%04x" % c if r < 0.8 else b"\\u%04X" % c
        elif c == 0x2f and r < 0.3:
            out += b"\\/"
        elif c < 0x80 and r < 0.08:
            out += b"\\u%04x" % c
        else:
            out += bytes([c])
        i += 1
    return out + b'"'


def text_of(rng, desc_tokens=None, depth=3):
    """Random valid JSON text with whitespace and escape variety."""
    r = rng.random()
    w = lambda: rng.choice(WS)
    if depth <= 0 or r < 0.4:
        k = rng.random()
        if k < 0.15:
            return rng.choice([b"null", b"true", b"false"])
        if k < 0.45:
            return rng.choice(NUMS)
        if k < 0.55:
            return rng.choice([b'"\\ud83d\\ude00"', b'"\\ud800"', b'"\\udc00\\ud800"', b'"\\ud800\\u0041"', b'"\\u0000"', b'"\\u017f"', b'"\\uD83D\\uDE00x"',
                               b'"\\ud800\\ud800\\udc00"'])
        return esc_string(rng, rand_string(rng))
    if r < 0.65:
        n = rng.choice([0, 1, 2, 3])
        return b"[" + w() + (w() + b"," + w()).join(text_of(rng, None, depth - 1) for _ in range(n)) + w() + b"]"
    n = rng.choice([0, 1, 2, 3])
    parts = []
    for _ in range(n):
        k = rng.choice(KEYS)
        parts.append(esc_string(rng, k) + w() + b":" + w() + text_of(rng, None, depth - 1))
    return b"{" + w() + (w() + b"," + w()).join(parts) + w() + b"}"


def mutate(rng, t, n=1):
    bts = bytearray(t)
    for _ in range(n):
        op = rng.random()
        pool = b'{}[]",:\\ntfu0123456789eE+-. \t\n\r\x00\x1f\x7f\x80\xff/abcdefABCDEF'
        p = rng.randrange(len(bts) + 1)
        if op < 0.35 and bts:
            bts[min(p, len(bts) - 1)] = rng.choice(pool)
        elif op < 0.65:
            bts[p:p] = bytes([rng.choice(pool)])
        elif op < 0.9 and bts:
            del bts[min(p, len(bts) - 1)]
        else:
            bts = bts[:p]
    return bytes(bts)


# ---- call frames ----

CALL_KEYS = [b"method", b"parameters", b"more", b"oneway", b"upgrade"]
REPLY_KEYS = [b"parameters", b"continues", b"error"]


def key_variant(rng, k):
    r = rng.random()
    if r < 0.6:
        return esc_string(rng, k) if rng.random() < 0.3 else b'"' + k + b'"'
    if r < 0.7:
        return b'"' + k.upper() + b'"'
    if r < 0.78:
        return b'"' + k.capitalize() + b'"'
    if r < 0.84:
        return b'"' + k.replace(b"s", "ſ".encode()) + b'"'
    if r < 0.88:
        return b'"' + k.replace(b"s", b"\\u017f").replace(b"e", b"\\u0065") + b'"'
    if r < 0.92:
        return b'"' + k + b'x"'
    if r < 0.96:
        return b'"' + k[:-1] + b'"'
    return b'"' + k.replace(b"e", "K".encode()) + b'"'


def frame_like(rng, keys, string_field, method_pool):
    """An object of roughly the given shape: right and wrong member types, duplicates, nulls, case variants, unknown members."""
    w = lambda: rng.choice(WS)
    r = rng.random()
    if r < 0.04:
        return rng.choice([b"null", b" null ", b"[]", b"1", b'"x"', b"true", b"{}", b"", b" ", b"nul", b"{", b'{"method"}', b"[null]", b"{}{}",
                           b'{"method":"a.b"}x', b"\xef\xbb\xbf{}"])
    n = rng.choice([0, 1, 1, 2, 2, 3, 4, 6])
    parts = []
    for _ in range(n):
        k = rng.choice(keys + [b"extra"]) if rng.random() < 0.9 else rng.choice(KEYS)
        kv = key_variant(rng, k)
        t = rng.random()
        if k == string_field:
            if t < 0.7:
                v = esc_string(rng, rng.choice(method_pool))
            elif t < 0.8:
                v = b"null"
            else:
                v = rng.choice([b"5", b"true", b"[]", b"{}", b'["a.b"]'])
        elif k == b"parameters":
            if t < 0.6:
                v = text_of(rng, None, 2)
            elif t < 0.75:
                v = b"null"
            else:
                v = rng.choice([b"{}", b'{"a":1}', b"[1, 2]", b'"str"', b"7", b" { \"interface\" : \"org.varlink.service\" } "])
        elif k in (b"more", b"oneway", b"upgrade", b"continues"):
            if t < 0.7:
                v = rng.choice([b"true", b"false"])
            elif t < 0.8:
                v = b"null"
            else:
                v = rng.choice([b"1", b"0", b'"true"', b"[]", b"{}"])
        else:
            v = text_of(rng, None, 2)
        parts.append(kv + w() + b":" + w() + v)
    return w() + b"{" + w() + (w() + b"," + w()).join(parts) + w() + b"}" + w()
