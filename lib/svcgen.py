# svcgen.py — cases for the service-side harness (h_svc) and the independent
# Python reading of the reply discipline (C01), routing (C04), error replies (C12).
import json
import jsongen as J

hx = lambda b: (b.hex() if b else "-")

IFACE_POOL = [b"a.b", b"a.b.c", b"a", b"org.example", b"org.example.more", b"org.varlink.servicex", b"org.varlink", b"x.y", "ü.x".encode(),
              b"a.bc", b"b", b"a.B", b"org.varlink.service.sub", b""]   # the empty name can be registered too: "Ping" must still be a method without interface part
METHODS = [b"M", b"Ping", b"Q", b"GetInfo", b"m", "Mé".encode(), b"M9"]
SVC = b"org.varlink.service"


def desc_to_py(d):
    """value description -> python object (numbers as ('num', token)); None if not representable (invalid UTF-8 / bad number)"""
    pos = [0]

    def hexrun():
        st = pos[0]
        while pos[0] < len(d) and d[pos[0]] in "0123456789abcdef":
            pos[0] += 1
        return bytes.fromhex(d[st:pos[0]])

    class Bad(Exception):
        pass

    def val():
        c = d[pos[0]]
        pos[0] += 1
        if c == "N":
            return None
        if c == "T":
            return True
        if c == "F":
            return False
        if c == "D":
            t = hexrun()
            pos[0] += 1
            return ("num", t.decode("latin-1"))
        if c == "S":
            s = hexrun()
            pos[0] += 1
            try:
                return s.decode("utf-8")
            except UnicodeDecodeError:
                raise Bad()
        if c == "[":
            out = []
            if d[pos[0]] == "]":
                pos[0] += 1
                return out
            while True:
                out.append(val())
                if d[pos[0]] == ",":
                    pos[0] += 1
                    continue
                pos[0] += 1
                return out
        if c in "{M":
            if c == "M":
                pos[0] += 1
            out = {}
            if d[pos[0]] == "}":
                pos[0] += 1
                return out
            while True:
                k = hexrun()
                pos[0] += 1
                try:
                    ks = k.decode("utf-8")
                except UnicodeDecodeError:
                    raise Bad()
                v = val()
                out[ks] = v          # duplicate keys: JSON-equality is taken on the last one (what decoders keep)
                if d[pos[0]] == ",":
                    pos[0] += 1
                    continue
                pos[0] += 1
                return out
        raise Bad()

    try:
        return ("ok", val())
    except Bad:
        return None


def loads_exact(text):
    """JSON text -> python object with numbers as ('num', token)"""
    return json.loads(text, parse_float=lambda t: ("num", t), parse_int=lambda t: ("num", t),
                      parse_constant=lambda t: ("num", t))


class Step:
    def __init__(self, kind, policy, cont=False, name=b"", val="N", std="I", arg=b""):
        self.kind, self.policy, self.cont, self.name, self.val, self.std, self.arg = kind, policy, cont, name, val, std, arg

    def text(self):
        if self.kind in ("b", "w"):
            return self.kind + self.arg.decode()
        if self.kind == "d":
            return "d0%s:%s" % (self.policy, self.val)
        if self.kind == "r":
            return "r%d%s:%s" % (1 if self.cont else 0, self.policy, self.val)
        if self.kind == "e":
            return "e%s:%s:%s" % (self.policy, self.name.hex(), self.val)
        return "s%s:%s:%s" % (self.policy, self.std, self.arg.hex())


ERR_NAMES = [b"a.b.E", b"x.y.NotFound", b"org.example.more.Err", b"E", b"", b".E", b"a.", b"org.varlink.service.InvalidParameter",
             b"org.varlink.service.X", b"org.varlink.servicex.E", b"org.varlink.service", "ü.Ü".encode(), b"a..b", b"a.b.c.d.E", b"a\x00.b",
             b"org.varlink.service.sub.E", b"\xff.E"]


def rand_script(rng, simple=False):
    steps = []
    n = rng.choice([0, 1, 1, 1, 2, 2, 3, 4])
    for _ in range(n):
        pol = rng.choice("ceeen") if not simple else "e"
        r = rng.random()
        val = rng.choice(["N", "{}", J.rand_object(rng, 2), J.rand_object(rng, 2), "R" + J.text_of(rng, None, 2).hex() + ";"])
        if val == "R;":
            val = "N"
        if r < 0.5:
            steps.append(Step("r", pol, cont=rng.random() < 0.5, val=val))
        elif r < 0.8:
            steps.append(Step("e", pol, name=rng.choice(ERR_NAMES), val=val))
        else:
            steps.append(Step("s", pol, std=rng.choice("IMNP"), arg=rng.choice([b"x", b"", b"a.b", "é".encode(), b"parameters"])))
    return steps, (rng.random() < 0.15)


def script_text(method, steps, ret):
    return "script %s %s ret%d" % (method.hex(), " ".join(s.text() for s in steps), 1 if ret else 0)


def call_bytes(rng, method, params, more, oneway, upgrade, canonical=False):
    """A call frame (without NUL); params is JSON text or None"""
    members = [(b"method", J.esc_string(rng, method) if not canonical else json.dumps(method.decode("utf-8", "surrogateescape")).encode("utf-8", "surrogateescape"))]
    if params is not None:
        members.append((b"parameters", params))
    for k, v in ((b"more", more), (b"oneway", oneway), (b"upgrade", upgrade)):
        if v:
            members.append((k, b"true"))
        elif rng.random() < 0.1:
            members.append((k, b"false"))
    if not canonical and rng.random() < 0.3:
        rng.shuffle(members)
    w = (lambda: rng.choice(J.WS)) if not canonical else (lambda: b"")
    return b"{" + w() + (w() + b"," + w()).join(b'"' + k + b'"' + w() + b":" + w() + v for k, v in members) + w() + b"}"


def segment(rng, data):
    if not data:
        return []
    style = rng.choice(["one", "bytes", "rand", "rand", "nul"])
    if style == "one" or len(data) == 1:
        return [data]
    if style == "bytes" and len(data) <= 400:
        return [data[i:i + 1] for i in range(len(data))]
    if style == "nul":
        out, cur = [], b""
        for ch in data:
            cur += bytes([ch])
            if ch == 0:
                out.append(cur)
                cur = b""
        if cur:
            out.append(cur)
        return out
    cuts = sorted(set(rng.randrange(1, len(data)) for _ in range(rng.choice([1, 2, 4, 8]))))
    out, prev = [], 0
    for c in cuts + [len(data)]:
        out.append(data[prev:c])
        prev = c
    return [c for c in out if c]


def route_py(registered, method):
    """Independent reading of C04: -> ('invalid',) | ('builtin', m) | ('dispatch', iface, m) | ('nointerface', iface)"""
    r = method.rfind(b".")
    if r <= 0:
        return ("invalid",)
    iface, m = method[:r], method[r + 1:]
    if iface == SVC:
        return ("builtin", m)
    if iface in registered:
        return ("dispatch", iface, m)
    return ("nointerface", iface)


def std_reply(kind, arg):
    name = {"I": "InterfaceNotFound", "M": "MethodNotFound", "N": "MethodNotImplemented", "P": "InvalidParameter"}[kind]
    field = {"I": "interface", "M": "method", "N": "method", "P": "parameter"}[kind]
    return {"error": "org.varlink.service." + name, "parameters": {field: arg}}


def error_name_ok(name):
    r = name.rfind(b".")
    return r > 0 and name[:r] != SVC
