# C09 — IDL parser is total: every input yields a tree or an error.
import vcheck as V
import idlgen as G
from props import idlcommon as C


def gen_inputs(ck):
    rng = ck.rng
    thorough = ck.tier == "thorough"
    inputs = []

    def add(kind, xs):
        for x in xs:
            inputs.append((kind, x))

    add("corpus", C.corpus("C09") + C.corpus("C06") + C.corpus("C05"))
    valid = G.repo_descriptions()
    for _ in range(60 if thorough else 14):
        valid.append(G.render(G.rand_idl(rng), rng, "rand"))
    for _ in range(20 if thorough else 6):
        valid.append(G.render_docs(G.rand_idl(rng, depth=2, max_members=3), rng)[0])
    for v in valid:
        add("truncation", [v[:i] for i in range(len(v) + 1)])
    L = 4 if thorough else 3
    toks = [t.encode() for t in G.TOKENS]
    for prefix in (b"", b"interface a.b\n", b"interface a.b\nmethod M() -> ()\n", b"interface a.b\nerror E ", b"interface a.b\ntype T ("):
        for n in range(1, L + 1):
            if n == L and prefix and not thorough:
                # the longest length only after two prefixes in the quick tier
                if prefix not in (b"interface a.b\n", b"interface a.b\ntype T ("):
                    continue
            import itertools
            for seq in itertools.product(toks, repeat=n):
                inputs.append(("tokens", prefix + b"".join(seq)))
    for _ in range(20000 if thorough else 3000):
        n = rng.choice([1, 2, 3, 5, 8, 16, 40, 100])
        add("random-bytes", [bytes(rng.randrange(256) for _ in range(n))])
    for _ in range(20000 if thorough else 3000):
        n = rng.choice([1, 2, 3, 5, 8, 16, 40])
        add("random-syntax-bytes", [b"interface a.b\n" + bytes(rng.choice(b" \t\r\n#():,->?[]_.aZ09x\x00\xff") for _ in range(n))])
    for v in valid[:12 if thorough else 4]:
        add("byte-mutation", G.byte_mutations(v, rng, 3000 if thorough else 300))
    # type references the parser does not resolve: cycles through aliases (with and without constructors on the way), self references,
    # undefined names; each used below every constructor at every position - anything that chases references must terminate
    import itertools as _it
    cyc = [[("A", "A")], [("A", "B"), ("B", "A")], [("A", "B"), ("B", "C"), ("C", "A")], [("A", "?A")], [("A", "[]A")], [("A", "(x: A)")], [("A", "?B"), ("B", "A")],
           [("A", "[string]B"), ("B", "?A")], [("A", "Undefined")], [("A", "(a: int)"), ("B", "A")]]
    uses = ["A", "?A", "[]A", "[string]A", "?[]A", "(y: A)", "(y: ?A)", "[]?A"]
    for defs, use in _it.product(cyc, uses):
        body = b"".join(b"type %s %s\n" % (n.encode(), t.encode()) for n, t in defs)
        add("reference-cycles", [b"interface a.b\n" + body + b"method M(x: %s) -> ()\n" % use.encode(),
                                 b"interface a.b\n" + b"method M() -> (r: %s)\n" % use.encode() + body,
                                 b"interface a.b\n" + body + b"method M() -> ()\nerror E (e: %s)\n" % use.encode(),
                                 b"interface a.b\n" + body + b"type Z %s\nmethod M() -> ()\n" % use.encode()])
    small = b"interface a.b\ntype T (a: ?[]int, b: [string](x, y))\n# d\nmethod M(a: T) -> (b: bool)\nerror E (c: string)\n"
    add("every-byte", G.every_byte_everywhere(small, None if thorough else range(0, len(small) + 1, 2)))
    # nesting that alternates constructors (a per-level re-parse would be exponential)
    for n in (10, 20, 30, 60, 200):
        head = b"interface a.b\nmethod A(x: "
        add("deep-alternating", [head + b"?[]" * n + b"int) -> ()", head + b"?[string]" * n + b"int) -> ()", head + b"?(a:" * n + b"int" + b")" * n + b") -> ()",
                                 head + b"[]?" * n + b"int) -> ()"])
    deep = [200, 4000] + ([16000, 30000] if thorough else [])
    for n in deep:
        head = b"interface a.b\nmethod A(x: "
        add("deep-nesting", [head + b"[]" * n + b"int) -> ()", head + b"?" * n, head + b"(a:" * n, head + b"[string]" * (n // 4),
                             head + b"(a:" * (n // 4) + b"int" + b")" * (n // 4) + b") -> ()", b"#" * n, b"# x\n" * (n // 4),
                             b"interface a.b\n" + b"method M" + b" " * n])
    big = bytes(rng.randrange(256) for _ in range(65536))
    add("random-64k", [big, b"interface a.b\n" + big[:65000]])
    return inputs


def main(pid, argv):
    ck = V.Check(pid, argv)
    ck.rule = ("inputs: every truncation of valid descriptions (repository files + random trees x random layouts), all token sequences up to a length "
               "bound after 5 prefixes, random bytes incl. NUL/non-UTF-8, byte mutations, deep nesting up to the 64 KiB bound; "
               "distinct = distinct byte strings; non-trivial = not the empty input")
    ck.assumptions = ["Go stack depth is not modelled (recursion depth <= input length; exercised up to 64 KiB)",
                      "termination on the implementation is observed with a 20 s watchdog per input"]
    ck.check_obligations()
    binp = C.build(ck)
    if binp is None:
        return ck.finish()
    if ck.replay:
        import json
        rp = json.load(open(ck.replay))
        inputs = [("replay", V.unhex(rp["failing"]["case"]))]
    else:
        inputs = gen_inputs(ck)
    seen = set()
    uniq = []
    for k, x in inputs:
        if x in seen:
            continue
        seen.add(x)
        uniq.append((k, x))
        ck.count("kind:" + k)
    data = [x for _, x in uniq]
    impl = C.run_impl(binp, data)
    model = C.run_model(data)
    ck.evaluations = len(data)
    n_fail = 0
    for (k, x), il, ml in zip(uniq, impl, model):
        if il == "SKIPPED":
            ck.count("impl:skipped-after-hangs")
            continue
        if x:
            ck.distinct.add(x)
        ic, mc = C.cls(il), C.cls(ml)
        ck.count("impl:" + ic)
        ck.count("len:" + ("<=16" if len(x) <= 16 else "<=256" if len(x) <= 256 else "<=4096" if len(x) <= 4096 else ">4096"))
        if ic not in ("OK", "ERR"):
            n_fail += 1
            if True:
                # only panics are minimised: re-running a hanging input hundreds of times would take hours
                small = C.shrink(binp, x, lambda d, r: C.cls(r) == ic) if (n_fail <= 3 and ic == "PANIC") else x
                ck.fail("idl-not-total", V.hexs(small), "idl.New does not return a tree or an error: " + il[:200],
                        impl=il[:300], model=ml[:100], extra=dict(original=V.hexs(x)[:400], generator=k, text=repr(small[:200])))
        elif mc not in ("OK", "ERR"):
            ck.tie_broken("model outcome %s (theorem C09_total excludes it)" % mc, V.hexs(x)[:200], ic, mc)
        elif ic != mc:
            ck.tie_broken("accept/reject differs", V.hexs(x)[:400], ic, mc)
    for (k, x), il in list(zip(uniq, impl))[:: max(1, len(uniq) // 6)]:
        ck.sample(dict(generator=k, input=repr(x[:80]), impl=il[:80]))
    C.crosscheck(ck, data, model)
    return ck.finish()
