# C19 — Address strings are handled totally and consistently.
import json
import os
import shutil
import tempfile
import vcheck as V
from props import svccommon as C

hx = lambda b: b.hex() if b else "-"


def gen_case(rng, idx, d):
    """-> (line, list of (op, addr, expectation-or-None))"""
    tag = "%d-%d" % (os.getpid(), idx)
    port = 20000 + idx % 10000     # below the kernel's ephemeral range (32768-60999), which other processes' outgoing connections use
    tails = [b"", b"", b";k=v", b";", b";;a:b", b";mode=0600;x"]

    def unix_forms():
        return [(b"@vrf-" + tag.encode(), True, True), (b"@vrf2-" + tag.encode(), True, True), (("r%s.sock" % tag).encode(), True, True),
                (d.encode() + b"/a%s.sock" % tag.encode(), True, True), (b"", False, False),
                (d.encode() + b"/nodir/x.sock", False, False), (b"x" * 120, False, False)]

    def tcp_forms():
        return [(b"127.0.0.1:0", True, False), (b":0", True, False), (b"", True, False), (b"127.0.0.1:", True, False), (b":", True, False), (b":00", True, False), (b"127.0.0.1:%d" % port, True, True), (b"256.1.1.1:0", False, False),
                (b"127.0.0.1", False, False), (b"127.0.0.1:notaport", False, False)]

    def rand_addr():
        r = rng.random()
        if r < 0.45:
            a, ok, conn = rng.choice(unix_forms())
            return b"unix:" + a + rng.choice(tails), ok, conn, "unix"
        if r < 0.65:
            a, ok, conn = rng.choice(tcp_forms())
            return b"tcp:" + a + rng.choice(tails), ok, conn, "tcp"
        if r < 0.8:
            a = rng.choice([b"foo:bar", b":x", b":", b"UNIX:@a", b"unix", b"", b"tcp", b"unix@a", b"@a", b"/run/x", b"udp:127.0.0.1:0", b"unixx:@a", b" unix:@a",
                            b"unix :@a", b"tcp;x:1", b";unix:@a"])
            return a, False, False, "bad"
        return bytes(rng.choice(b"unixtcp:;@/.a0 \x00\xff") for _ in range(rng.choice([1, 3, 6, 12]))), False, False, "random"

    ops = []
    served = None
    running = False
    closed_listener = False     # Shutdown on a bound service that is not serving closes the listener but keeps the field: DoListen on it is not part of the statement
    for _ in range(rng.choice([2, 4, 6, 10])):
        r = rng.random()
        if r < 0.4:
            a, ok, conn, kind = rand_addr()
            ops.append(("bind", a, ok, kind))
            if kind in ("unix", "tcp") and ok and not running:
                served = (a, conn)
                closed_listener = False
        elif r < 0.5 and not running:
            a, ok, conn, kind = rand_addr()
            ops.append(("listen", a, ok, kind))
            if kind in ("unix", "tcp") and ok:
                served, running = (a, conn), True
                closed_listener = False
        elif r < 0.6:
            if not closed_listener:
                ops.append(("start",))
                running = running or served is not None
        elif r < 0.72:
            if rng.random() < 0.35:
                # Shutdown whether or not the service is serving: a bound listener is closed and its socket file removed
                ops.append(("shutdown",))
                closed_listener = (not running) and served is not None
                served = None
            else:
                ops.append(("stop",))
                if running:
                    served = None
            running = False
        elif r < 0.86:
            if served and served[1] and rng.random() < 0.7:
                ops.append(("connect", served[0]))
            else:
                a, ok, conn, kind = rand_addr()
                if not (kind == "unix" and a.startswith(b"unix:@") and a.split(b";")[0] == b"unix:@"):
                    ops.append(("connect", a))
        elif r < 0.94:
            p = rng.choice([("r%s.sock" % tag).encode(), d.encode() + b"/a%s.sock" % tag.encode()])
            ops.append(("exists", p))
        else:
            p = rng.choice([("r%s.sock" % tag).encode(), d.encode() + b"/a%s.sock" % tag.encode()])
            if not running:
                ops.append(("stale", p))
    if ops and ops[-1][0] != "stop":
        ops.append(("stop",))
    parts = []
    for o in ops:
        if o[0] in ("bind", "listen"):
            parts.append("%s %d %s" % (o[0], 1 if o[2] else 0, hx(o[1])))
        elif o[0] in ("connect", "exists", "stale"):
            parts.append("%s %s" % (o[0], hx(o[1])))
        else:
            parts.append(o[0])
    return " | ".join(parts), ops


def refusal(a):
    """the three refusals of the statement, read directly"""
    if b":" not in a:
        return True
    proto, rest = a.split(b":", 1)
    if proto not in (b"unix", b"tcp"):
        return True
    return proto == b"unix" and rest.split(b";")[0] == b""


def fs_path(a):
    """the filesystem socket path an address string names, or None"""
    if not a.startswith(b"unix:"):
        return None
    pth = a[5:].split(b";")[0]
    return pth if pth and not pth.startswith(b"@") else None


def released_oracle(ops, res):
    """'a filesystem socket path is removed again when the service is shut down', read directly off the history"""
    current, released, running = None, set(), False
    for o, r in zip(ops, res):
        if o[0] in ("start", "listen") and r == "ok":
            running = True
        elif o[0] in ("stop", "shutdown") and r == "stopped":
            running = False
        if o[0] in ("bind", "listen") and o[2] and fs_path(o[1]) is not None and r == "err" and not running:
            # a filesystem path in an existing directory can always be bound: a socket file left over from an earlier run is replaced
            return "%s(%r) failed although the path is well-formed and nothing but a stale socket file can be in the way" % (o[0], o[1])
        if o[0] in ("bind", "listen") and r == "ok":
            current = fs_path(o[1])
            released.discard(current)
        elif (o[0] == "stop" and r == "stopped") or (o[0] == "shutdown" and r in ("stopped", "shutdown")):
            if current is not None:
                released.add(current)
            current = None
        elif o[0] == "stale":
            released.discard(o[1])
        elif o[0] == "exists" and o[1] in released and r != "0":
            return "the socket file %r still exists after the service was shut down" % o[1]
        elif o[0] == "connect" and fs_path(o[1]) in released and r == "ok":
            return "a client still reaches the service through %r after it was shut down" % o[1]
    return None


def main(pid, argv):
    ck = V.Check(pid, argv)
    ck.rule = ("histories of Bind / Listen / DoListen / Shutdown (of a serving and of a merely bound service) / NewConnection+GetInfo / file-existence checks on one Service object in a scratch directory, with "
               "address strings from a grammar: protocol in {unix, tcp, other, empty, missing}; unix paths empty, '@name', '@', relative, absolute, in a missing "
               "directory, over-long; tcp hosts with port 0, empty host and/or empty port, fixed port, bad host, missing port; with and without ';parameter' tails; plus random strings; with and "
               "without a pre-existing (stale) socket file. distinct = distinct histories; non-trivial = history with a successful bind")
    ck.assumptions = ["whether listen(2) succeeds on a well-formed endpoint is an oracle bit supplied by the generator (existing directory, path length, host syntax, free port)",
                      "the filesystem and the abstract / port namespaces are an abstract map in the model"]
    ck.check_obligations()
    bins = C.build(ck, ("h_addr",))
    if bins is None:
        return ck.finish()
    rng = ck.rng
    d = tempfile.mkdtemp(prefix="vaddr")
    try:
        if ck.replay:
            cs = [(json.load(open(ck.replay))["failing"]["case"], None)]
        else:
            cs = [gen_case(rng, i, d) for i in range(12000 if ck.tier == "thorough" else 1500)]
            # a bare '@' asks the kernel for an autobind name: outcome not modelled, it only must not panic
            for a in (b"unix:@", b"unix:@;x", b"unix:@;"):
                cs.append(("bind 1 %s" % a.hex(), None))
                cs.append(("listen 1 %s | stop" % a.hex(), None))
        lines = [c[0] for c in cs]
        impl = C.run_sharded([bins["h_addr"], d], lines, jobs=12)
    finally:
        shutil.rmtree(d, ignore_errors=True)
    model = V.run_model_parallel("addr-run", lines)
    ck.evaluations = len(lines)

    def retry_ok(line, ml):
        # the history names paths in the scratch directory of the first run: recreate it
        os.makedirs(d, exist_ok=True)
        try:
            for _ in range(2):
                rc, out, err = V.run_lines([bins["h_addr"], d], [line], timeout=120)
                if out and out[0] == ml:
                    return True
            return False
        finally:
            shutil.rmtree(d, ignore_errors=True)
    nf = 0
    for (line, ops), il, ml in zip(cs, impl, model):
        res = il.split(" ")
        bad = None
        if il.startswith(("CRASH", "HANG")):
            bad = "the library crashed or hung: " + il[:200]
        elif "panic" in res:
            bad = "an address string made the library panic"
        elif "noreturn" in res or "stuck" in res:
            bad = "the service did not return / start: " + il[:200]
        elif ops is not None:
            if "ok" in res[:1] or any(r == "ok" for o, r in zip(ops, res) if o[0] in ("bind", "listen")):
                ck.distinct.add(line)
            for o, r in zip(ops, res):
                ck.count("op:" + o[0])
                if o[0] in ("bind", "listen") and refusal(o[1]) and r not in ("err", "already"):
                    bad = "%s(%r) must be refused, got %s" % (o[0], o[1], r)
                    break
            bad = bad or released_oracle(ops, res)
        if bad:
            nf += 1
            ck.fail("addr-history", line, bad, impl=il[:600], model=ml[:600])
        elif il != ml and ops is not None and any(o[0] in ("bind", "listen") and o[3] == "tcp" and b":0" not in o[1] for o in ops) and retry_ok(line, ml):
            # a fixed TCP port can be taken by another process of this machine at the wrong moment: that is the environment, not the library
            ck.count("tcp-port-retry")
        elif il != ml and ops is not None:
            ck.tie_broken("history results differ from the model", line[:800], il[:400], ml[:400])
    ck.extra["failing_inputs_total"] = nf
    for (line, _), il in list(zip(cs, impl))[:: max(1, len(cs) // 5)]:
        ck.sample(dict(case=line[:300], impl=il[:200]))
    return ck.finish()
