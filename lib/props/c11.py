# C11 — Client decodes exactly what was sent and fails cleanly otherwise.
import json
import vcheck as V
import svcgen as S
import jsongen as J
from props import svccommon as C
from props.c10 import strict_json

STD = {"org.varlink.service.InterfaceNotFound": ("I", "interface"), "org.varlink.service.MethodNotFound": ("M", "method"),
       "org.varlink.service.MethodNotImplemented": ("N", "method"), "org.varlink.service.InvalidParameter": ("P", "parameter")}


def reply_frame(rng):
    """-> (bytes without NUL, expected receive result or None when only the model is consulted)"""
    r = rng.random()
    if r < 0.06:
        # a reply longer than the read buffer (4096) / than a socket buffer
        p = b'{"pad":"' + b"p" * rng.choice([4000, 4075, 4090, 4200, 9000, 70000]) + b'","n":1}'
        cont = rng.random() < 0.4
        return b'{"parameters":' + p + (b',"continues":true' if cont else b"") + b"}", "ok %d R%s" % (4 if cont else 0, p.hex())
    if r < 0.45:
        p = rng.choice([None, b"{}", J.text_of(rng, None, 2), b'{"a":1}', b"[1,2]", b'"s"'])
        cont = rng.random() < 0.4
        members = []
        if p is not None:
            members.append(b'"parameters":' + p)
        if cont:
            members.append(b'"continues":true')
        elif rng.random() < 0.2:
            members.append(b'"continues":false')
        exp = "ok %d %s" % (4 if cont else 0, "N" if p is None or p.strip() == b"null" else "R" + p.strip().hex())
        return b"{" + b",".join(members) + b"}", exp
    if r < 0.6:
        name = rng.choice(list(STD))
        k, field = STD[name]
        arg = rng.choice(["x", "", "a.b", "é", "parameters"])
        form = rng.random()
        if form < 0.6:
            return json.dumps({"parameters": {field: arg}, "error": name}).encode(), "std %s %s" % (k, S.hx(arg.encode()))
        if form < 0.8:
            return json.dumps({"error": name}).encode(), "std %s -" % k
        return json.dumps({"parameters": {field: 5}, "error": name}).encode(), "err %s R%s" % (name.encode().hex(), json.dumps({field: 5}).encode().hex())
    if r < 0.72:
        name = rng.choice(["a.b.E", "x", "org.varlink.service.Other", "ü.E", "org.varlink.InvalidParameter"])
        p = rng.choice([None, b"{}", b'{"k":[1,2,3]}'])
        fr = b'{"error":' + json.dumps(name).encode() + (b',"parameters":' + p if p is not None else b"") + b"}"
        return fr, "err %s %s" % (name.encode().hex(), "N" if p is None else "R" + p.hex())
    if r < 0.8:
        return rng.choice([b"null", b" null "]), "ok 0 N"
    if r < 0.9:
        return rng.choice([b"[]", b"5", b'"x"', b"true", b"{", b"", b'{"error":5}', b'{"continues":"yes"}', b'{"parameters":{}}}', b"\xff", b'{"error":["a"]}']), "other:decode"
    if r < 0.95:
        return J.frame_like(rng, J.REPLY_KEYS, b"error", [b"a.b.E", b"", b"org.varlink.service.InvalidParameter"]), None
    return J.mutate(rng, b'{"parameters":{"a":1},"continues":true}', rng.choice([1, 2])), None


def main(pid, argv):
    ck = V.Check(pid, argv)
    ck.rule = ("cases: all 16 flag combinations (plus flag words with extra bits) x methods x parameters through Connection.Send into a recording connection, then "
               "reply byte streams (valid replies incl. frames of 4 KiB - 70 KiB, continues sequences, error frames incl. the four standard names with right/wrong/missing parameters, null, wrong-shape "
               "JSON, mutated and random bytes) cut at EVERY byte offset (the server dies there) and delivered in generated segmentations; receive is called once more "
               "than there are frames. distinct = distinct (flags, stream, cut); non-trivial = stream with at least one complete frame")
    ck.assumptions = ["the connection is an in-memory net.Conn delivering exactly the scripted chunks and then EOF; OS transports are covered by C03/C17"]
    ck.check_obligations()
    bins = C.build(ck, ("h_cli",))
    if bins is None:
        return ck.finish()
    rng = ck.rng
    thorough = ck.tier == "thorough"
    lines, metas = [], []
    if ck.replay:
        lines, metas = [json.load(open(ck.replay))["failing"]["case"]], [None]
    else:
        # flags
        for fl in list(range(16)) + [16, 17, 19, 32 + 1, 255, 1 << 40]:
            for m in (b"a.b.M", b"", "ü.x".encode()):
                for p in ("-", "{}", J.rand_object(rng, 2)):
                    lines.append("%d %s %s 0 -" % (fl, V.hexs(m), p))
                    metas.append(("flags", fl, m))
        # reply streams, every cut
        for _ in range(300 if thorough else 40):
            frames = [reply_frame(rng) for _ in range(rng.choice([1, 1, 2, 3, 5]))]
            # a mutated frame may contain a NUL of its own and then counts as two frames: from there on only the model is consulted
            for fi, (fb, _) in enumerate(frames):
                if b"\x00" in fb:
                    frames = frames[:fi] + [(x, None) for x, _ in frames[fi:]]
                    break
            stream = b"".join(f + b"\x00" for f, _ in frames)
            cuts = range(len(stream) + 1) if len(stream) <= 300 else sorted(rng.sample(range(len(stream) + 1), 300))
            if len(stream) > 300:
                ends = [i + 1 for i, ch in enumerate(stream) if ch == 0]
                cuts = sorted(set(list(cuts)[:260]) | {len(stream)} | set(ends[:20]) | {e - 1 for e in ends[:20]})
            for k in cuts:
                pre = stream[:k]
                lines.append("%d %s {} %d %s" % (rng.choice([0, 1]), b"a.b.M".hex(), len(frames) + 1, ",".join(c.hex() for c in S.segment(rng, pre)) or "-"))
                metas.append(("stream", frames, pre))
    # the same reply streams once more for a caller that passes no out value (what generated stubs do for methods without out parameters)
    import re as _re
    nil_lines = [("nil:" + l, l) for l, m in list(zip(lines, metas)) if m is not None and m[0] == "stream"][:: (1 if thorough else 4)]
    nil_impl = C.run_sharded([bins["h_cli"]], [a for a, _ in nil_lines]) if nil_lines else []
    nil_model = V.run_model_parallel("cli-run", [b for _, b in nil_lines]) if nil_lines else []
    for (a, _), il, ml in zip(nil_lines, nil_impl, nil_model):
        ck.evaluations += 1
        ck.count("nil-out")
        want = _re.sub(r"recv=ok (\d+) \S+", r"recv=ok \1 -", ml)
        if il != want:
            ck.fail("client-receive-nil-out", a, "with no out value passed, receive must report the same frames, flags and errors (parameters aside): got %s, with an out value %s"
                    % (il[:300], ml[:300]), impl=il[:600], model=ml[:600])
    # several calls of one method on one connection with different flags: each call's bytes are those of the same call on a fresh connection
    seqs = []
    for _ in range(0 if ck.replay else (200 if thorough else 30)):
        fls = [rng.choice([0, 1, 2, 8, 0, 3, 9, 10]) for _ in range(rng.choice([2, 3, 5]))]
        seqs.append((b"a.b.M", fls))
    seq_impl = C.run_sharded([bins["h_cli"]], ["seq %s %s" % (m.hex(), ",".join(map(str, f))) for m, f in seqs]) if seqs else []
    single = sorted({(m, fl) for m, f in seqs for fl in f})
    single_model = dict(zip(single, V.run_model("cli-run", ["%d %s - 0 -" % (fl, m.hex()) for m, fl in single]))) if single else {}
    for (m, fls), il in zip(seqs, seq_impl):
        ck.evaluations += 1
        ck.count("flag-sequences")
        want = []
        for fl in fls:
            o = single_model[(m, fl)]
            want.append(o.split("wrote=")[1].split()[0] if o.startswith("send=ok") else "refused")
        if il != "seq " + "|".join(want):
            ck.fail("client-flag-sequence", "seq %s %s" % (m.hex(), fls), "calls of one method on one connection with flags %s: the bytes written differ from those of the same calls on fresh connections: %s vs %s"
                    % (fls, il[:300], "|".join(want)[:300]), impl=il[:600])
    impl = C.run_sharded([bins["h_cli"]], lines)
    model = V.run_model_parallel("cli-run", lines)
    ck.evaluations += len(lines)
    nf = 0
    for line, meta, il, ml in zip(lines, metas, impl, model):
        bad = None
        if il.startswith(("PANIC", "CRASH", "HANG")):
            bad = "client call crashed: " + il[:200]
        elif meta is not None and meta[0] == "flags":
            _, fl, m = meta
            ck.count("flags")
            ck.distinct.add(line)
            more, oneway, upgrade = bool(fl & 1), bool(fl & 2), bool(fl & 8)
            refused = (more and oneway) or (more and upgrade)
            head = il.split(" ; ")[0]
            wrote = head.split("wrote=")[1]
            if refused:
                if not head.startswith("send=refused") or wrote != "-":
                    bad = "flags %d must be refused before anything is written: %s" % (fl, head[:120])
            elif not head.startswith("send=ok"):
                bad = "flags %d refused: %s" % (fl, head[:120])
            else:
                w = bytes.fromhex(wrote)
                o = strict_json(w[:-1]) if w.endswith(b"\x00") else Ellipsis
                if o is Ellipsis or not isinstance(o, dict):
                    bad = "the call on the wire is not one JSON object + NUL"
                elif (o.get("more", False), o.get("oneway", False), o.get("upgrade", False)) != (more, oneway, upgrade):
                    bad = "flags on the wire %s differ from the requested %s" % ((o.get("more"), o.get("oneway"), o.get("upgrade")), (more, oneway, upgrade))
        elif meta is not None:
            _, frames, pre = meta
            ck.count("stream")
            if b"\x00" in pre:
                ck.distinct.add(line)
            recs = [r[len("recv="):] for r in il.split(" ; ")[1:]]
            complete = pre.count(b"\x00")
            actual = pre.split(b"\x00")
            for k, r in enumerate(recs):
                if k < complete:
                    # the k-th frame on the wire is the k-th generated one unless an earlier (mutated) frame contained a NUL
                    exp = frames[k][1] if k < len(frames) and frames[k][0] == actual[k] else None
                    if r == "eof":
                        bad = "receive %d reported end of stream although frame %d was fully received" % (k, k)
                    elif exp is not None and r != exp:
                        bad = "receive %d returned %r for frame %r, expected %r" % (k, r[:120], actual[k][:80], exp)
                    elif strict_json(actual[k]) is Ellipsis and not r.startswith("other"):
                        bad = "receive %d reported %r for a frame that is not valid JSON" % (k, r[:80])
                elif r != "eof":
                    bad = "receive %d reported %r although the stream ended before that frame's NUL" % (k, r[:80])
                if bad:
                    break
        if bad:
            nf += 1
            ck.fail("client-receive", line, bad, impl=il[:800], model=ml[:800])
        elif il != ml:
            ck.tie_broken("client results differ from the model", line[:800], il[:400], ml[:400])
    ck.extra["failing_inputs_total"] = nf
    for line, il in list(zip(lines, impl))[:: max(1, len(lines) // 5)]:
        ck.sample(dict(case=line[:200], impl=il[:200]))
    return ck.finish()
