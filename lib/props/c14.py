# C14 — Shutdown always ends serving; connections drain; service is reusable.
import json
import vcheck as V
import lifegen as L
from props import svccommon as C


def run(ck, pid, timeout_mix, n_quick, n_thorough, title_rule):
    ck.rule = title_rule
    ck.check_obligations()
    ck.lock_facts_obligation()      # Shutdown takes the service mutex: it must never wait behind a running handler
    bins = C.build(ck, ("h_life",))
    if bins is None:
        return None
    rng = ck.rng
    if ck.replay:
        hs = [json.load(open(ck.replay))["failing"]["case"].split(" | ")]
    else:
        hs = []
        for i in range(n_thorough if ck.tier == "thorough" else n_quick):
            hs.append(L.history(rng, timeout_mix(i), rng.choice([1, 2, 3, 4, 6, 8])))
        # a serving call that still drains a connection while the same object is already bound and served again (real sockets)
        hs += [["overlap-drain %d" % i] for i in range(12 if ck.tier == "thorough" else 3)]
    lines = [" | ".join(h) for h in hs]
    lines_u = list(dict.fromkeys(lines))
    hs = [l.split(" | ") for l in lines_u]
    impl = C.run_sharded([bins["h_life"]], lines_u, jobs=14)
    model = V.run_model_parallel("life-run", lines_u)
    ck.evaluations = len(lines_u)
    nf = 0
    for ops, line, il, ml in zip(hs, lines_u, impl, model):
        res = il.split(" ")
        for o in ops:
            ck.count("op:" + o.split()[0])
        if any(o.split()[0] in ("shutdown", "expire") for o in ops):
            ck.distinct.add(line)
        if il.startswith(("PANIC", "CRASH", "HANG")):
            bad = "harness: " + il[:200]
        elif "STALE-DEADLINE=" in il:
            bad = ("a service with an idle timeout entered Accept without re-arming the listener's deadline after the previous Accept returned: "
                   "the timeout period is then measured from an older instant than the last new connection")
        else:
            bad = L.read_statement(ops, res)
        if bad:
            nf += 1
            ck.fail("life-history", line, bad, impl=il[:600], model=ml[:600])
        elif il != ml:
            ck.tie_broken("history results differ from the model", line[:800], il[:400], ml[:400])
    ck.extra["failing_inputs_total"] = nf
    for line, il in list(zip(lines_u, impl))[:: max(1, len(lines_u) // 5)]:
        ck.sample(dict(history=line[:300], results=il[:200]))
    return True


def main(pid, argv):
    ck = V.Check(pid, argv)
    ck.assumptions = ["sequential consistency for the running flag (its race freedom is C16's subject)",
                      "'as soon as' is a step-count statement in the theorem; the harness waits at most 1.5 s per observation",
                      "well_sequenced: serving calls on one service object do not overlap in their start-up window"]
    r = run(ck, pid, lambda i: i % 4 == 0, 1500, 20000,
            "histories over {connect, call, close, Shutdown, second Bind, second Listen, re-bind + re-serve} on a real Service with a controlled listener that places "
            "Shutdown before Accept is entered (gate), during a blocked Accept, and between Accept's decision and its return (hold); every history ends with Shutdown, "
            "closing of all connections and the observation of the serving call's return value, the connection counter, the running flag, the listener's Close and "
            "a re-bind/re-serve. distinct = distinct histories; non-trivial = history containing a Shutdown")
    return ck.finish()
