# C07 — Interface generator emits compiling Go for every accepted description.
import json
import os
import re
import shutil
import subprocess
import tempfile
import vcheck as V
import idlgen as G
import gengen as GG
from props import svccommon as C

GO_KW = set(GG.GO_KEYWORDS)


def pkgname_of(iface):
    return iface.replace(".", "").replace("-", "").lower()


def build_generator():
    os.makedirs(V.BIN, exist_ok=True)
    out_bin = os.path.join(V.BIN, "ifacegen")
    rc, out = V.sh("cd %s && go build -o %s ./cmd/varlink-go-interface-generator" % (V.REPO, out_bin), env=V.GOENV, timeout=600)
    return rc == 0, out, out_bin


def run_generator(genbin, d, texts):
    """-> list of dict(rc, out, pkg, src, src2)"""
    res = []
    for i, t in enumerate(texts):
        cd = os.path.join(d, "g%d" % i)
        os.makedirs(cd)
        f = os.path.join(cd, "x.varlink")
        open(f, "wb").write(t)
        r = {}
        for rep in (0, 1):
            p = subprocess.run([genbin, f], stdout=subprocess.PIPE, stderr=subprocess.STDOUT, timeout=60)
            gos = [x for x in os.listdir(cd) if x.endswith(".go")]
            src = open(os.path.join(cd, gos[0]), "rb").read() if gos else None
            if rep == 0:
                r.update(rc=p.returncode, out=p.stdout.decode("utf-8", "replace")[-600:], file=gos[0] if gos else None, src=src)
                for g in gos:
                    os.remove(os.path.join(cd, g))
            else:
                r["src2"] = src
        res.append(r)
    return res


def compile_batch(d, items):
    """items: list of (idx, pkgname, src). One scratch module, one `go build` + `go vet` for the lot, one run.
    -> (dict idx -> error text, dict idx -> (name hex, descr hex))"""
    mod = os.path.join(d, "mod")
    os.makedirs(mod)
    open(os.path.join(mod, "go.mod"), "w").write("module scratch\n\ngo 1.23\n\nrequire github.com/varlink/go v0.0.0\n\nreplace github.com/varlink/go => /repo\n")
    open(os.path.join(mod, "go.sum"), "w").write("")
    imports, body = [], []
    for idx, pkg, src in items:
        pd = os.path.join(mod, "p%d" % idx, pkg)
        os.makedirs(pd)
        open(os.path.join(pd, pkg + ".go"), "wb").write(src)
        imports.append('\tq%d "scratch/p%d/%s"' % (idx, idx, pkg))
        body.append('\t{ x := q%d.VarlinkNew(nil); fmt.Printf("%%d %%x %%x\\n", %d, x.VarlinkGetName(), x.VarlinkGetDescription()) }' % (idx, idx))
    errs = {}
    rc, out = V.sh("cd %s && go build ./... 2>&1; go vet ./... 2>&1" % mod, env=V.GOENV, timeout=1800)
    for line in out.split("\n"):
        m = re.match(r"(?:# scratch/)?p(\d+)/", line.strip()) or re.search(r"\bp(\d+)/[^ :]+\.go:\d+", line)
        if m:
            errs.setdefault(int(m.group(1)), []).append(line.strip())
    good = [(i, p, s) for i, p, s in items if i not in errs]
    vals = {}
    if good:
        md = os.path.join(mod, "main")
        os.makedirs(md)
        gi = {i for i, _, _ in good}
        open(os.path.join(md, "main.go"), "w").write(
            "package main\n\nimport (\n\t\"fmt\"\n%s\n)\n\nfunc main() {\n%s\n}\n"
            % ("\n".join(l for l, (i, _, _) in zip(imports, items) if i in gi), "\n".join(l for l, (i, _, _) in zip(body, items) if i in gi)))
        rc, out = V.sh("cd %s && go run ./main" % mod, env=V.GOENV, timeout=900)
        for line in out.split("\n"):
            f = line.split(" ")
            if len(f) == 3 and f[0].isdigit():
                vals[int(f[0])] = (f[1], f[2])
        if rc != 0 and not vals:
            for i in gi:
                errs.setdefault(i, []).append("main program failed: " + out[-300:])
    return {i: "; ".join(e[:4]) for i, e in errs.items()}, vals


def main(pid, argv):
    ck = V.Check(pid, argv)
    ck.rule = ("descriptions in the stated domain: every type constructor at every position (alias body, method input, method output, error parameter, nested), "
               "typeless errors, dashes and upper case in interface names, Go keywords and generator-local identifiers as field names, doc comments containing "
               "backticks, CRLF files, random trees x layouts; each is run through the real generator binary twice (determinism), the output is compiled and vetted "
               "against /repo's varlink package in a scratch module, and a program prints VarlinkGetName / VarlinkGetDescription. distinct = distinct descriptions; "
               "non-trivial = all (each has at least one method)")
    ck.assumptions = ["'compiles and type-checks' is decided per sampled program by the Go toolchain (translation validation), not by a theorem",
                      "go/format is an oracle: the model's unformatted text is passed through gofmt before comparison"]
    ck.check_obligations()
    ok, out, genbin = build_generator()
    if not ok:
        ck.broken.append("the generator does not build: " + out[-400:])
        return ck.finish(level='translation_validation')
    rng = ck.rng
    thorough = ck.tier == "thorough"
    idls = []
    if ck.replay:
        texts = [V.unhex(json.load(open(ck.replay))["failing"]["case"])]
        idls = [None]
    else:
        sysm = GG.systematic()
        if not thorough:
            sysm = sysm[::4] + sysm[-len(GG.GO_KEYWORDS + GG.LOCALS)::6]
        for dsc in sysm:
            idls.append((dsc, "min"))
        for _ in range(1200 if thorough else 30):
            idls.append((GG.rand_idl(rng), rng.choice(["min", "lines", "rand"])))
        texts = []
        for dsc, style in idls:
            if style == "rand" and rng.random() < 0.5:
                texts.append(G.render_docs(dsc, rng)[0])
            else:
                texts.append(G.render(dsc, rng, style, final_comment=False))
        # comments with backticks, CRLF, trailing newlines
        base = b"# doc with `backtick` and ``two``\ninterface a.b\n# m `x`\nmethod M(a: int) -> (b: string)\n"
        texts += [base, base.replace(b"\n", b"\r\n"), base + b"\n\n\n", b"interface a.b\r\nmethod M() -> ()\r\n"]
        idls += [None] * 4
        # doc comments that mention the generator's own markers and import triggers
        docs = [b"# returns json.RawMessage via fmt.Sprintf\ninterface a.b\nmethod M() -> ()\n",
                b"# @IMPORTS@\ninterface a.b\nmethod M() -> ()\n",
                b"interface a.b\n# see context.Context and fmt.Sprintf(\"%v\")\nmethod M(a: int) -> ()\n# json.RawMessage\nerror E\n",
                b"interface a.b\n# @IMPORTS@ json.RawMessage\ntype T (a: string)\nmethod M(t: T) -> ()\n"]
        texts += docs
        idls += [None] * len(docs)
        texts += G.repo_descriptions()[:1]
        idls += [None]
    d = tempfile.mkdtemp(prefix="vgen")
    nf = 0
    try:
        gres = run_generator(genbin, d, texts)
        items = []
        for i, (t, r) in enumerate(zip(texts, gres)):
            ck.evaluations += 1
            ck.distinct.add(t)
            bad = None
            if r["rc"] != 0 or r["src"] is None:
                bad = "the generator failed (exit %s): %s" % (r["rc"], r["out"].strip().split("\n")[0][:200] if "panic" not in r["out"] else "panic: " + r["out"][r["out"].index("panic"):][:300])
            elif r["src"] != r["src2"]:
                bad = "generation is not deterministic"
            if bad:
                nf += 1
                kind = "gen-crash"
                try:
                    t.decode("utf-8")
                    clean = b"\x00" not in t
                except UnicodeDecodeError:
                    clean = False
                if not clean and r["rc"] == 1 and "illegal" in r["out"]:
                    # a description that is not UTF-8 text cannot be embedded in Go source: reported as an error, nothing generated
                    kind = "gen-description-not-utf8"
                ck.fail(kind, V.hexs(t), bad, impl=r["out"][:600], extra=dict(text=t.decode("latin-1")[:600]))
                continue
            m = re.search(rb"^package (\S+)", r["src"], re.M)
            pkg = m.group(1).decode() if m else "x"
            items.append((i, r["file"][:-3], r["src"], pkg))
        # ---- the Gallina model of the generator (Model/Gen.v), through gofmt, must reproduce the real output byte for byte ----
        okd, outd = V.build_driver()
        if not okd:
            ck.broken.append("model driver build failed: " + outd[-300:])
        else:
            mres = V.run_model_parallel("gen-run", [V.hexs(t) for t in texts], jobs=8)
            ntie = 0
            for i, (t, r, ml) in enumerate(zip(texts, gres, mres)):
                f = ml.split(" ")
                if f[0] == "OK":
                    p = subprocess.run(["gofmt"], input=V.unhex(f[2]), stdout=subprocess.PIPE, stderr=subprocess.PIPE, timeout=60)
                    if r["rc"] == 0 and r["src"] is not None:
                        if p.returncode != 0 or p.stdout != r["src"] or V.unhex(f[1]).decode("latin-1") + ".go" != r["file"]:
                            ntie += 1
                            if ntie <= 3:
                                ck.tie_broken("generator output differs from gofmt(model text)", V.hexs(t)[:600], (r["src"] or b"")[:200].decode("latin-1"), p.stdout[:200].decode("latin-1"))
                    elif p.returncode == 0:
                        ntie += 1
                        if ntie <= 3:
                            ck.tie_broken("the generator failed where the model produces formattable text", V.hexs(t)[:600], r["out"][:200], "OK")
                elif f[0] == "PARSEERR" and r["rc"] == 0:
                    ck.tie_broken("the generator accepted a description the parser model rejects", V.hexs(t)[:600], "generated", "PARSEERR")
                elif f[0] == "PANIC" and "panic" not in r["out"]:
                    ck.tie_broken("the model predicts a crash (enum-typed method parameters)", V.hexs(t)[:600], r["out"][:200], "PANIC")
            ck.count("model_compared", len(texts))
        # keyword package names cannot even be imported: judged separately
        comp = [(i, f, s) for i, f, s, pkg in items if re.fullmatch(r"[a-z_][a-z0-9_]*", f) and f not in GO_KW]
        for i, f, s, pkg in items:
            if (i, f, s) not in comp:
                nf += 1
                kind = "pkgname_is_go_keyword" if f in GO_KW else "gen-badpkg"
                ck.fail(kind, V.hexs(texts[i]), "the package name %r derived from the interface name is not a usable Go package name" % f,
                        impl=s[:200].decode("latin-1"), extra=dict(text=texts[i].decode("latin-1")[:400]))
        B = 40
        for k in range(0, len(comp), B):
            sub = os.path.join(d, "b%d" % k)
            os.makedirs(sub)
            errs, vals = compile_batch(sub, comp[k:k + B])
            for i, f, s in comp[k:k + B]:
                ck.count("compiled")
                t = texts[i]
                bad = None
                if i in errs:
                    bad = "the generated file does not compile / vet: " + errs[i][:500]
                elif i not in vals:
                    bad = "the generated package did not report its name and description"
                else:
                    nm, ds = bytes.fromhex(vals[i][0]), bytes.fromhex(vals[i][1])
                    mname = re.search(rb"interface[ \t\r\n]+(?:#[^\n]*\n[ \t\r\n]*)*([A-Za-z0-9.-]+)", t)
                    if ds.rstrip(b"\n") != t.rstrip(b"\n"):
                        bad = "VarlinkGetDescription() returns %r..., not the description text" % ds[:80]
                    elif mname and nm != mname.group(1) and idls[i] is not None and nm != idls[i][0][0].encode():
                        bad = "VarlinkGetName() returns %r" % nm
                    elif f != pkgname_of(nm.decode("latin-1")):
                        bad = "package name %r is not derived from the interface name %r" % (f, nm)
                if bad:
                    nf += 1
                    ck.fail("gen-output", V.hexs(t), bad, impl=s[:300].decode("latin-1"), extra=dict(text=t.decode("latin-1")[:600]))
            shutil.rmtree(sub, ignore_errors=True)
    finally:
        shutil.rmtree(d, ignore_errors=True)
    ck.extra["failing_inputs_total"] = nf
    ck.extra["programs"] = len(texts)
    for t in texts[:: max(1, len(texts) // 5)]:
        ck.sample(dict(description=t.decode("latin-1")[:200]))
    ck.extra.setdefault('disagreements_checked', ck.extra.get('failing_inputs_total', 0))
    return ck.finish(level='translation_validation')
