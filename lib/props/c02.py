# C02 — Framing: one JSON object + one NUL, independent of segmentation.
import json
import vcheck as V
import svcgen as S
import jsongen as J
from props import svccommon as C
from props.c03 import _run
from props.c10 import strict_json


def wire_ok(b):
    """one syntactically valid JSON object followed by exactly one NUL, no NUL inside"""
    if not b.endswith(b"\x00"):
        return "does not end in NUL"
    body = b[:-1]
    if b"\x00" in body:
        return "NUL inside the message"
    if any(c < 0x20 for c in body):
        return "control byte inside the message"
    # syntactic validity is judged byte-wise (a string may carry bytes that are not UTF-8, as for Go's json.Valid)
    v = strict_json(body)
    if v is Ellipsis or not isinstance(v, dict):
        return "not a valid JSON object"
    return None


def main(pid, argv):
    ck = V.Check(pid, argv)
    ck.rule = ("(a) senders: generated parameter values (nested trees, Go maps, json.Number, json.RawMessage with whitespace, strings with NUL/quotes/control/"
               "non-BMP/invalid UTF-8, sizes up to 300 KiB in the quick tier and several MiB in the thorough tier, depth up to 2000) x reply kinds (plain, continues, error) through the service's reply marshalling "
               "and through Connection.Send into a recording connection; (b) receivers: real client <-> real service through a re-segmenting proxy (1-byte writes; "
               "pseudo-random cuts up to 9000 bytes; pauses of 400 ms inside a frame while the receiver's context has no deadline) with frames from a few bytes to > 64 KiB in both directions; (c) the replies the service builds itself (standard errors, GetInfo, descriptions) for method strings and interface names "
               "with BEL, VT, DEL, NUL, ESC, U+2028, U+E0001, BOM, invalid UTF-8, and pipelined calls whose segments arrive 40 ms apart while a `more` handler is still "
               "producing its replies. distinct = distinct cases; non-trivial = value with "
               "a string or nesting")
    ck.assumptions = ["bufio's buffer discipline is modelled (capacity parameter); the kernel may coalesce or split the proxy's writes further, which the theorem covers (any partition)"]
    ck.check_obligations()
    bins = C.build(ck, ("h_json", "h_e2e", "h_relay", "h_svc"))
    if bins is None:
        return ck.finish()
    rng = ck.rng
    thorough = ck.tier == "thorough"
    nf = 0
    # ---- (a) senders ----
    replies, sends = [], []
    n = 20000 if thorough else 2500
    for i in range(n):
        r = rng.random()
        if r < 0.55:
            d = J.rand_value(rng, rng.choice([1, 2, 3, 4]), True, True) if rng.random() < 0.5 else J.rand_object(rng, 3)
        elif r < 0.7:
            d = "R" + V.hexs(J.text_of(rng)).replace("-", "") + ";"
        elif r < 0.8:
            d = "R" + V.hexs(J.mutate(rng, J.text_of(rng))).replace("-", "") + ";"
        else:
            d = "-"
        replies.append("%s %d %s" % (d, rng.randrange(2), V.hexs(rng.choice([b"", b"", b"a.b.E", "ü.E".encode(), b"x\x00.y", J.rand_string(rng)]))))
        sends.append("%d %s %s" % (rng.choice([0, 0, 1, 2, 8, 3, 9, 10, 4, 15]), V.hexs(rng.choice([b"a.b.M", b"", J.rand_string(rng), b"org.varlink.service.GetInfo"])), d))
    big = []
    for kind in (["bigstring", "deep", "wide"] * (4 if thorough else 1)):
        big.append("%s 0 -" % J.big_value(rng, kind, small=not thorough))
    replies += big
    for mode, mmode, lines in (("reply", "reply-enc", replies), ("send", "send-enc", sends)):
        rc, impl, err = V.run_lines([bins["h_json"], mode], lines, timeout=1800)
        model = V.run_model_parallel(mmode, lines, jobs=4)
        for l, il, ml in zip(lines, impl, model):
            ck.evaluations += 1
            ck.count(mode + (":err" if il.startswith(("ERR", "REFUSED")) else ":sent"))
            if "S" in l or "[" in l:
                ck.distinct.add((mode, l[:2000]))
            bad = None
            if il.startswith("PANIC"):
                bad = il[:200]
            elif il.startswith("REFUSED") or il.startswith("ERR"):
                written = il.split()[-1] if mode == "send" else "-"
                if written != "-":
                    bad = "a refused / failed send wrote bytes: " + written[:80]
            else:
                wire = bytes.fromhex(il) + (b"\x00" if mode == "reply" else b"")
                bad = wire_ok(wire)
                ck.count("size:" + ("<1k" if len(wire) < 1024 else "<64k" if len(wire) < 65536 else ">=64k"))
            if bad:
                nf += 1
                ck.fail("wire-" + mode, l[:3000], bad, impl=il[:300], model=ml[:300])
            elif il != ml:
                ck.tie_broken("%s bytes differ from the model" % mode, l[:600], il[:300], ml[:300])
    # ---- (b) receivers behind a re-segmenting proxy ----
    cases = []
    for i in range(600 if thorough else 60):
        iface = b"a.b"
        secs = ["svc 76 70 31 75 -", "iface %s %s" % (S.hx(iface), S.hx(b"interface a.b\nmethod M() -> ()"))]
        ops = []
        for mi in range(rng.choice([1, 2, 3])):
            m = iface + b".M%d" % mi
            k = rng.choice([0, 1, 3, 8])
            sz = rng.choice([0, 10, 300, 5000, 70000]) if i % 3 == 0 else rng.choice([0, 10, 300])
            vals = ["{70:S%s;,6e:D%s;}" % ((b"x" * sz).hex(), str(j).encode().hex()) for j in range(k + 1)]
            secs.append(S.script_text(m, [S.Step("r", "e", cont=(j < k), val=v) for j, v in enumerate(vals)], False))
            psz = rng.choice([0, 5, 4090, 4097, 66000]) if i % 3 == 1 else rng.choice([0, 5, 100])
            ops.append("call %d %s {71:S%s;} %d" % (1 if k else 0, m.hex(), (b"q" * psz).hex(), k + 1))
        ops.append("getinfo")
        cases.append(" | ".join(secs + ["transport " + ("proxy1" if (i % 2 == 0 and i % 3 != 0 and i % 3 != 1) or i % 6 == 5 else "proxyR")] + ops))
    # pauses inside a frame: one quick call under a short deadline, then calls under contexts without a deadline whose requests and replies are delivered in parts 400 ms apart, across the first call's deadline
    for i in range(48 if thorough else 12):
        secs = ["svc 76 70 31 75 -", "iface %s %s" % (S.hx(b"a.b"), S.hx(b"interface a.b\nmethod M() -> ()"))]
        ops = []
        for mi in range(3):
            m = b"a.b.M%d" % mi
            secs.append(S.script_text(m, [S.Step("r", "e", val="{70:S%s;,6e:D%s;}" % ((b"x" * rng.choice([3, 40, 500])).hex(), str(mi).encode().hex()))], False))
            ops.append("call 0 %s {71:S%s;} 1" % (m.hex(), (b"q" * rng.choice([0, 30])).hex()))
        cases.append(" | ".join(secs + ["transport proxyP"] + ops))
    # pipelined calls (two in flight) behind the re-segmenting proxies and plainly: what each receive yields must not depend on how many
    # replies happened to arrive together
    for i in range(60 if thorough else 9):
        secs = ["svc 76 70 31 75 -", "iface %s %s" % (S.hx(b"a.b"), S.hx(b"interface a.b\nmethod M() -> ()"))]
        wm = []
        for wi in range(rng.choice([3, 4, 6])):
            m = b"a.b.W%d" % wi
            secs.append(S.script_text(m, [S.Step("r", "e", val="{77:D%s;}" % str(wi).encode().hex())], False))
            wm.append(m.hex())
        cases.append(" | ".join(secs + ["transport " + ["unixfs", "proxy1", "proxyR"][i % 3], "window " + ",".join(wm)]))
        if i % 3 == 0:
            # ... and after the first connection was closed (twice), on two new connections used side by side
            cases.append(" | ".join(secs + ["transport " + ["unixfs", "tcp"][(i // 3) % 2], "getinfo", "reconnect2 " + ",".join(wm)]))
    impl = _run(bins["h_e2e"], cases)
    model = V.run_model_parallel("e2e-run", cases, jobs=4)
    for l, il, ml in zip(cases, impl, model):
        ck.evaluations += 1
        ck.count("proxy:" + l.split("transport ")[1].split()[0])
        ck.distinct.add(("proxy", l[:3000]))
        # (after reconnect2 the handlers run on connections 1 and 2, whose dispatch logs the harness does not print: compare the client's view)
        key = (lambda s: s.split(" || ")[0]) if "reconnect2" in l else (lambda s: s)
        if key(il.split(" released=")[0]) != key(ml):
            # the model is segmentation-independent: a difference means messages were not recovered identically on both sides
            nf += 1
            ck.fail("wire-proxy", l[:3000], "behind a re-segmenting proxy client and service did not recover the messages that were sent",
                        impl=il[:400], model=ml[:400])
    # ---- (c) the replies the service builds itself (standard errors echo text chosen by the peer, GetInfo / descriptions echo registered text) ----
    odd = [b"\x07bell", b"v\x0btab", b"\x7fdel", b"nul\x00", "\U000e0001tag".encode(), "\u2028ls\u2029".encode(), b'q"uote\\', "\ufeffbom".encode(), b"\x1b[0m",
           "\U0001f600".encode(), "\u0085nel".encode(), b"\xff\xfe", b"a\x01\x02\x03\x1f", b"<&>", b"\r\n"]
    scases, smeta, meta_of = [], [], {}
    for i in range(1500 if thorough else 200):
        secs, meta = C.gen_service(rng, n_if=rng.choice([0, 1, 2]), simple_scripts=True)
        calls, data = [], b""
        for _ in range(rng.choice([2, 5, 9])):
            a, b = rng.choice(odd + [J.rand_string(rng)] + meta["registry"]), rng.choice(odd + [J.rand_string(rng), b"M"])
            method = rng.choice([a + b"." + b, a + b"." + b, a, S.SVC + b"." + b, b"." + b, a + b"."])
            params = None
            if rng.random() < 0.25:
                method = S.SVC + b".GetInterfaceDescription"
                params = b'{"interface":' + J.esc_string(rng, rng.choice(odd + meta["registry"])) + b"}"
            calls.append(C.Call(method, params))
            data += S.call_bytes(rng, method, params, False, False, False) + b"\x00"
        secs.append("conn half %s" % ",".join(c.hex() for c in S.segment(rng, data)))
        scases.append(" | ".join(secs))
        smeta.append(calls)
        meta_of[scases[-1]] = meta
    # a `more` call whose handler takes a while, with the following calls already on their way: the bytes that follow the call in the
    # same segment, and those that arrive while the handler runs, must still be read in order
    for i in range(150 if thorough else 24):
        secs = ["svc 76 70 31 75 -", "iface %s %s" % (S.hx(b"a.b"), S.hx(b"interface a.b\nmethod M() -> ()"))]
        steps = [S.Step("r", "e", cont=True, val="{6e:D31;}"), S.Step("w", "c", arg=b"70"), S.Step("r", "e", cont=True, val="{6e:D32;}"), S.Step("w", "c", arg=b"70"),
                 S.Step("r", "e", val="{6e:D33;}")]
        secs.append(S.script_text(b"a.b.Slow", steps, False))
        secs.append(S.script_text(b"a.b.Fast", [S.Step("r", "e", val="{66:T}")], False))
        meta = dict(registry=[b"a.b"], descrs={S.SVC: C.svc_descr(), b"a.b": b"interface a.b\nmethod M() -> ()"},
                    scripts={b"a.b.Slow": (steps, False), b"a.b.Fast": ([S.Step("r", "e", val="{66:T}")], False)},
                    info={"vendor": "v", "product": "p", "version": "1", "url": "u", "interfaces": [S.SVC.decode(), "a.b"]}, comparable=True)
        calls = [C.Call(b"a.b.Slow", b"{}", more=True)] + [C.Call(rng.choice([b"a.b.Fast", b"org.varlink.service.GetInfo"]), None) for _ in range(rng.choice([1, 2, 4]))]
        frames = [S.call_bytes(rng, c.method, c.params, c.more, False, False) + b"\x00" for c in calls]
        data = b"".join(frames)
        # cut points: inside / right after the first frame, then a few more: every chunk is sent 40 ms after the previous one
        a = len(frames[0])
        cutset = sorted({a + rng.choice([1, 2, 5]), a + rng.randrange(1, max(2, len(data) - a)), rng.randrange(1, len(data))} | ({a} if i % 3 == 0 else set()))
        cutset = [c for c in cutset if 0 < c < len(data)]
        chunks = [data[x:y] for x, y in zip([0] + cutset, cutset + [len(data)])]
        secs.append("conn slow %s" % ",".join(c.hex() for c in chunks))
        scases.append(" | ".join(secs))
        smeta.append(calls)
        meta_of[scases[-1]] = meta
    simpl = C.run_impl(bins["h_svc"], scases)
    smodel = C.run_model(scases)
    for l, calls, il, ml in zip(scases, smeta, simpl, smodel):
        ck.evaluations += 1
        ck.count("service-built replies", len(calls))
        ck.distinct.add(("svc", l[:3000]))
        iconns, _ = C.split_result(il)
        mconns, _ = C.split_result(ml)
        bad = None
        if iconns is None:
            bad = "service run failed: " + il[:200]
        else:
            out, _, _ = C.conn_fields(iconns[0])
            if out is None:
                bad = "client did not reach end of stream"
            else:
                frames, trailing = C.frames_of(out)
                if trailing:
                    bad = "bytes after the last NUL"
                else:
                    for fr in frames:
                        bad = bad or wire_ok(fr + b"\x00")
                    if not bad and all(C.utf8(c.method) and (c.params is None or C.utf8(c.params)) for c in calls):
                        bad = C.check_conn(meta_of[l], calls, iconns[0], 0)
        if bad:
            nf += 1
            ck.fail("wire-service-reply", l[:30000], bad, impl=il[:600], model=ml[:600])
        elif iconns != mconns and all(C.utf8(c.method) for c in calls):
            ck.tie_broken("service-built replies differ from the model", l[:1200], il[:600], ml[:600])
    ck.extra["failing_inputs_total"] = nf
    ck.sample(dict(case=replies[0][:200]))
    ck.sample(dict(case=cases[0][:300], impl=impl[0][:200]))
    small = [(l, m) for l, m in zip(sends, V.run_model("send-enc", sends[:400])) if len(l) < 160 and "M{" not in l and "R" not in l.split()[2][:1]][:0]
    return ck.finish()
