# C02 — Framing: one JSON object + one NUL, independent of segmentation.
import json
import vcheck as V
import svcgen as S
import jsongen as J
from props import svccommon as C
from props.c03 import _run
from props.c10 import strict_json


def wire_ok(b):
    """one syntactically valid JSON object followed by exactly one NUL, no NUL inside"""
    if not b.endswith(b"\x00"):
        return "does not end in NUL"
    body = b[:-1]
    if b"\x00" in body:
        return "NUL inside the message"
    if any(c < 0x20 for c in body):
        return "control byte inside the message"
    # syntactic validity is judged byte-wise (a string may carry bytes that are not UTF-8, as for Go's json.Valid)
    v = strict_json(body)
    if v is Ellipsis or not isinstance(v, dict):
        return "not a valid JSON object"
    return None


def main(pid, argv):
    ck = V.Check(pid, argv)
    ck.rule = ("(a) senders: generated parameter values (nested trees, Go maps, json.Number, json.RawMessage with whitespace, strings with NUL/quotes/control/"
               "non-BMP/invalid UTF-8, sizes up to several MiB, depth up to 2000) x reply kinds (plain, continues, error) through the service's reply marshalling "
               "and through Connection.Send into a recording connection; (b) receivers: real client <-> real service through a re-segmenting proxy (1-byte writes; "
               "pseudo-random cuts up to 9000 bytes) with frames from a few bytes to > 64 KiB in both directions. distinct = distinct cases; non-trivial = value with "
               "a string or nesting")
    ck.assumptions = ["bufio's buffer discipline is modelled (capacity parameter); the kernel may coalesce or split the proxy's writes further, which the theorem covers (any partition)"]
    ck.check_obligations()
    bins = C.build(ck, ("h_json", "h_e2e", "h_relay"))
    if bins is None:
        return ck.finish()
    rng = ck.rng
    thorough = ck.tier == "thorough"
    nf = 0
    # ---- (a) senders ----
    replies, sends = [], []
    n = 20000 if thorough else 2500
    for i in range(n):
        r = rng.random()
        if r < 0.55:
            d = J.rand_value(rng, rng.choice([1, 2, 3, 4]), True, True) if rng.random() < 0.5 else J.rand_object(rng, 3)
        elif r < 0.7:
            d = "R" + V.hexs(J.text_of(rng)).replace("-", "") + ";"
        elif r < 0.8:
            d = "R" + V.hexs(J.mutate(rng, J.text_of(rng))).replace("-", "") + ";"
        else:
            d = "-"
        replies.append("%s %d %s" % (d, rng.randrange(2), V.hexs(rng.choice([b"", b"", b"a.b.E", "ü.E".encode(), b"x\x00.y", J.rand_string(rng)]))))
        sends.append("%d %s %s" % (rng.choice([0, 0, 1, 2, 8, 3, 9, 10, 4, 15]), V.hexs(rng.choice([b"a.b.M", b"", J.rand_string(rng), b"org.varlink.service.GetInfo"])), d))
    big = []
    for kind in (["bigstring", "deep", "wide"] * (4 if thorough else 1)):
        big.append("%s 0 -" % J.big_value(rng, kind))
    replies += big
    for mode, mmode, lines in (("reply", "reply-enc", replies), ("send", "send-enc", sends)):
        rc, impl, err = V.run_lines([bins["h_json"], mode], lines, timeout=1800)
        model = V.run_model_parallel(mmode, lines, jobs=4)
        for l, il, ml in zip(lines, impl, model):
            ck.evaluations += 1
            ck.count(mode + (":err" if il.startswith(("ERR", "REFUSED")) else ":sent"))
            if "S" in l or "[" in l:
                ck.distinct.add((mode, l[:2000]))
            bad = None
            if il.startswith("PANIC"):
                bad = il[:200]
            elif il.startswith("REFUSED") or il.startswith("ERR"):
                written = il.split()[-1] if mode == "send" else "-"
                if written != "-":
                    bad = "a refused / failed send wrote bytes: " + written[:80]
            else:
                wire = bytes.fromhex(il) + (b"\x00" if mode == "reply" else b"")
                bad = wire_ok(wire)
                ck.count("size:" + ("<1k" if len(wire) < 1024 else "<64k" if len(wire) < 65536 else ">=64k"))
            if bad:
                nf += 1
                ck.fail("wire-" + mode, l[:3000], bad, impl=il[:300], model=ml[:300])
            elif il != ml:
                ck.tie_broken("%s bytes differ from the model" % mode, l[:600], il[:300], ml[:300])
    # ---- (b) receivers behind a re-segmenting proxy ----
    cases = []
    for i in range(600 if thorough else 60):
        iface = b"a.b"
        secs = ["svc 76 70 31 75 -", "iface %s %s" % (S.hx(iface), S.hx(b"interface a.b\nmethod M() -> ()"))]
        ops = []
        for mi in range(rng.choice([1, 2, 3])):
            m = iface + b".M%d" % mi
            k = rng.choice([0, 1, 3, 8])
            sz = rng.choice([0, 10, 300, 5000, 70000]) if i % 3 == 0 else rng.choice([0, 10, 300])
            vals = ["{70:S%s;,6e:D%s;}" % ((b"x" * sz).hex(), str(j).encode().hex()) for j in range(k + 1)]
            secs.append(S.script_text(m, [S.Step("r", "e", cont=(j < k), val=v) for j, v in enumerate(vals)], False))
            psz = rng.choice([0, 5, 4090, 4097, 66000]) if i % 3 == 1 else rng.choice([0, 5, 100])
            ops.append("call %d %s {71:S%s;} %d" % (1 if k else 0, m.hex(), (b"q" * psz).hex(), k + 1))
        ops.append("getinfo")
        cases.append(" | ".join(secs + ["transport " + ("proxy1" if (i % 2 == 0 and i % 3 != 0 and i % 3 != 1) or i % 6 == 5 else "proxyR")] + ops))
    impl = _run(bins["h_e2e"], cases)
    model = V.run_model_parallel("e2e-run", cases, jobs=4)
    for l, il, ml in zip(cases, impl, model):
        ck.evaluations += 1
        ck.count("proxy:" + l.split("transport ")[1].split()[0])
        ck.distinct.add(("proxy", l[:3000]))
        if il.split(" released=")[0] != ml:
            # the model is segmentation-independent: a difference means messages were not recovered identically on both sides
            nf += 1
            ck.fail("wire-proxy", l[:3000], "behind a re-segmenting proxy client and service did not recover the messages that were sent",
                        impl=il[:400], model=ml[:400])
    ck.extra["failing_inputs_total"] = nf
    ck.sample(dict(case=replies[0][:200]))
    ck.sample(dict(case=cases[0][:300], impl=impl[0][:200]))
    small = [(l, m) for l, m in zip(sends, V.run_model("send-enc", sends[:400])) if len(l) < 160 and "M{" not in l and "R" not in l.split()[2][:1]][:0]
    return ck.finish()
