# C17 — Context cancellation and deadlines unblock every I/O operation.
import itertools
import json
import os
import vcheck as V
from props import svccommon as C

RELAY_ENV = dict(os.environ, VERIF_RELAY=os.path.join(V.BIN, "h_relay"))


def main(pid, argv):
    ck = V.Check(pid, argv)
    ck.rule = ("the full product of transports {unix socket, TCP loopback, in-memory pipe, bridge subprocess} x operations {ReadBytes, raw Read, Write} x {cancel, "
               "deadline} x cancellation instants {before the call, while blocked with nothing in flight, while a frame is partially received (in the kernel, or already in the connection's buffer behind a complete frame), after completion with a deadline that then passes}, "
               "each repeated; plus client-level scenarios in which Connection.Send and the receive function it returns get different contexts (the one that is done "
               "must be the one that counts) and full-duplex scenarios (a blocked write while a read is cancelled; a blocked write while the context of an earlier, "
               "completed write is cancelled; a blocked read while writes complete); observed: error class, latency against a one-sided bound (< 1 s while the peer stays silent for 3 s), goroutines left behind, and a "
               "follow-up operation with a live context that must receive every byte the peer sends afterwards. distinct = distinct scenarios x repetition; "
               "non-trivial = scenario that cancels a blocked operation")
    ck.assumptions = ["promptness in seconds and kernel wake-ups are sampled (the theorem bounds the number of internal steps)",
                      "runtime.NumGoroutine is compared before/after with a 30 ms settling time"]
    ck.check_obligations()
    # ---- translator: the facts about ctxio/conn.go that the duplex model's parameters stand for, regenerated and checked inside Coq ----
    import re
    ok, out, gx = V.build_go("goctxio", overlay=False)
    if not ok:
        ck.broken.append("translator goctxio does not build: " + out[-400:])
        return ck.finish()
    gen = os.path.join(V.COQ, "gen")
    os.makedirs(gen, exist_ok=True)
    rc, txt = V.sh([gx, V.REPO], timeout=120)
    if rc != 0:
        ck.broken.append("translator goctxio failed on /repo's ctxio/conn.go: " + txt[-400:])
    else:
        open(os.path.join(gen, "GenCtxio.v"), "w").write(txt)
        open(os.path.join(gen, "GenCtxioCheck.v"), "w").write("From VL Require Import Bytes Ctxio Duplex CtxFacts GenCtxio.\n"
                                                             "Definition verdict := Eval vm_compute in ctxio_facts_ok ctxio_facts.\nPrint verdict.\n")
        rc, o = V.sh("cd %s && timeout 300 coqc -Q . VL gen/GenCtxio.v && timeout 300 coqc -Q . VL gen/GenCtxioCheck.v" % V.COQ, timeout=700)
        facts_ok = rc == 0 and re.search(r"verdict\s*=\s*true", o) is not None
        rct, plain = V.sh([gx, V.REPO, "text"], timeout=60)
        ck.extra["ctxio_facts"] = plain.strip().split("\n")[:20]
        ck.obligations.append(("discipline ctxio_facts_ok holds for the facts regenerated from /repo's ctxio/conn.go (gen/GenCtxio.v, vm_compute): each operation "
                               "sets only its own direction's deadline, makes its own completion channel, starts one helper and joins it when the context is done",
                               facts_ok, "" if facts_ok else (plain.strip() + " | " + o[-500:])))
        for ext in ("vo", "glob", "vok", "vos"):
            for nme in ("GenCtxio", "GenCtxioCheck"):
                try:
                    os.remove(os.path.join(gen, "%s.%s" % (nme, ext)))
                except OSError:
                    pass
    bins = C.build(ck, ("h_ctx", "h_relay"))
    if bins is None:
        return ck.finish()
    reps = 6 if ck.tier == "thorough" else 1
    if ck.replay:
        scen = [json.load(open(ck.replay))["failing"]["case"]]
    else:
        scen = []
        for t, op, kind, inst in itertools.product(["unix", "tcp", "pipe", "bridge"], ["readbytes", "read", "write"], ["cancel", "deadline"],
                                                   ["before", "blocked", "partial", "buffered", "after"]):
            if inst in ("partial", "buffered") and op != "readbytes":
                continue
            scen += ["%s %s %s %s" % (t, op, kind, inst)] * reps
        # client level: Send and the receive function it returns are given different contexts
        for t, kind, which in itertools.product(["unix", "tcp", "pipe"], ["cancel", "deadline"], ["sendctx", "recvctx"]):
            scen += ["%s clientrecv %s %s" % (t, kind, which)] * reps
        # service side: the serving call's own context ends while a connection is idle / stalled in the middle of a frame
        for kind, state in itertools.product(["cancel", "deadline"], ["idle", "midframe"]):
            scen += ["unix svcctx %s %s" % (kind, state)] * reps
        # one connection used in both directions at once: what happens to one direction must not reach the other
        for t, which in itertools.product(["unix", "tcp"], ["rdcancel", "stalehook", "rwshare"]):
            scen += ["%s duplex cancel %s" % (t, which)] * reps
    # run in parallel shards (each scenario blocks ~0.1 s; a stuck one 3 s)
    from concurrent.futures import ThreadPoolExecutor
    jobs = 12
    parts = [scen[i::jobs] for i in range(jobs)]

    def one(p):
        if not p:
            return []
        rc, out, err = V.run_lines([bins["h_ctx"]], p, 900, env=RELAY_ENV)
        return out + ["CRASH " + err[-200:].replace("\n", " ")] * (len(p) - len(out))
    with ThreadPoolExecutor(jobs) as ex:
        res = list(ex.map(one, parts))
    impl = {}
    for p, r in zip(parts, res):
        for i, (sc, o) in enumerate(zip(p, r)):
            impl.setdefault(sc, []).append(o)
    uniq = list(dict.fromkeys(scen))
    # every transport is expected to honour deadlines
    # for the model a frame head that sits in the connection's own buffer is the same situation as one still in the kernel: no delimiter, the helper blocks
    inst_of = {"idle": "blocked", "midframe": "partial", "buffered": "partial", "sendctx": "after", "recvctx": "blocked", "rdcancel": "after", "stalehook": "after", "rwshare": "after"}
    model = V.run_model("ctx-run", ["1 %s %s" % ("cancel" if s.split()[3] in ("sendctx", "rdcancel", "stalehook", "rwshare") else s.split()[2], inst_of.get(s.split()[3], s.split()[3])) for s in uniq])
    nf = 0
    for sc, ml in zip(uniq, model):
        allowed = set(ml.split(","))
        for rep, il in enumerate(impl[sc]):
            ck.evaluations += 1
            t, op, kind, inst = sc.split()
            ck.count("transport:" + t)
            ck.count("instant:" + inst)
            if inst in ("blocked", "partial", "buffered", "recvctx", "idle", "midframe"):
                ck.distinct.add((sc, rep))
            f = dict(kv.split("=", 1) for kv in il.split() if "=" in kv)
            bad = None
            if "class" not in f:
                bad = "scenario failed: " + il[:200]
            elif f["speed"] != "fast":
                bad = "the operation did not return promptly after its context was done (%s; the peer stayed silent for 3 s)" % f["speed"]
            elif inst not in ("after", "sendctx", "rdcancel", "stalehook", "rwshare") and f["class"] not in ("ctx", "timeout"):
                bad = "a cancelled / expired operation reported %s instead of a context or timeout error" % f["class"]
            elif inst in ("after", "sendctx", "rdcancel", "stalehook", "rwshare") and f["class"] != "ok":
                bad = "an operation whose context was live until completion reported %s" % f["class"]
            elif f["leak"] != "0":
                bad = "%s goroutine(s) left behind" % f["leak"]
            elif f["follow"] != "ok":
                bad = "the connection is not usable afterwards with a live context: " + f["follow"]
            if bad:
                nf += 1
                ck.fail("ctxio-scenario", sc, bad, impl=il, model=ml)
            elif f["class"] not in allowed:
                ck.tie_broken("outcome class not among the model's outcomes", sc, il, ml)
    ck.extra["failing_inputs_total"] = nf
    for sc in uniq[:: max(1, len(uniq) // 6)]:
        ck.sample(dict(scenario=sc, results=impl[sc][:2]))
    return ck.finish()
