# C13 — Introspection reports exactly what was registered.
import json
import vcheck as V
import svcgen as S
import jsongen as J
from props import svccommon as C
from props.c03 import _run

TEXTS = [b"", b"v", b"Vendor <x> & Co", "Überall ✓ 日本語 😀".encode(), b"line1\nline2\ttab", b'q"uote\\', b"\x00nul", b"a" * 300, b"\xff\xfe bad utf8",
         "ſK".encode(), b"https://example.org/?a=1&b=<2>"]
NAMES = [b"a.b", b"a.b.c", b"org.example", b"x.y", "ü.x".encode(), b"org.varlink.service", b"", b"a", b"A.B", b"a.b "]


CALL_METHODS = [b"M", b"Ping", b"GetInfo", b""]


def gen_history(rng, p_call=0.12):
    ident = [rng.choice(TEXTS) for _ in range(4)]
    ops = ["svc %s %s %s %s %s" % (tuple(S.hx(x) for x in ident) + (S.hx(C.svc_descr()),))]
    hist = []
    listening = draining = False
    for _ in range(rng.choice([3, 6, 10, 16])):
        r = rng.random()
        if rng.random() < p_call:
            # the same method strings come back before and after registrations: routing must follow the registry as it is now
            m = rng.choice(NAMES[:5] + [b"nope"]) + b"." + rng.choice(CALL_METHODS)
            ops.append("call %s" % S.hx(m))
            hist.append(("call", m))
        elif r < 0.06:
            name, descr = rng.choice(NAMES), rng.choice(TEXTS[:6])
            ops.append("reg2 %s %s" % (S.hx(name), S.hx(descr)))
            hist.append(("reg2", name, descr))
        elif r < 0.4:
            name, descr = rng.choice(NAMES), rng.choice(TEXTS + [b"interface a.b\nmethod M() -> ()"])
            ops.append("reg %s %s" % (S.hx(name), S.hx(descr)))
            hist.append(("reg", name, descr))
        elif r < 0.55:
            if draining:
                # the serving call is still draining the open connection: for the registry the service is still listening
                op = rng.choice(["drop", "drop", "shutdown"])
                draining = listening = False
            elif listening:
                op = rng.choice(["shutdown", "shutdown", "shutdown-keep"])
                draining = op == "shutdown-keep"
                listening = draining
            else:
                op = rng.choice(["listen", "listen2"])      # Bind + DoListen, or Listen
                listening = True
            ops.append(op)
            hist.append((op,))
        elif r < 0.8:
            ops.append("info")
            hist.append(("info",))
        else:
            name = rng.choice(NAMES + [b"nope", b"a.b.c.d"])
            ops.append("descr %s" % S.hx(name))
            hist.append(("descr", name))
    return " | ".join(ops), (ident, hist)


def spec(ident, hist, results):
    """The statement read directly: -> error text or None"""
    names, descrs, listening = [S.SVC], {S.SVC: C.svc_descr()}, False
    for op, res in zip(hist, results):
        if op[0] == "reg":
            _, name, descr = op
            want = "x" if (name in names or listening) else "o"
            if res != want:
                return "register %r while %s: got %s, expected %s" % (name, "listening" if listening else "stopped", res, want)
            if want == "o":
                names.append(name)
                descrs[name] = descr
        elif op[0] == "reg2":
            _, name, descr = op
            want = "xx" if (name in names or listening) else "ox"
            if res != want:
                return "two concurrent registrations of %r while %s: got %s, expected %s (exactly one may succeed, none while listening / when taken)" % (
                    name, "listening" if listening else "stopped", res, want)
            if want == "ox":
                names.append(name)
                descrs[name] = descr
        elif op[0] in ("listen", "listen2"):
            listening = True
        elif op[0] in ("shutdown", "drop"):
            listening = False
        elif op[0] == "shutdown-keep":
            if res != "draining":
                return "Shutdown with an open connection: the serving call must keep draining, got %s" % res
        elif op[0] == "info":
            f = res.split(" ")
            if f[1].startswith("X"):
                return "GetInfo was not answered: the service reported %s" % f[1][1:200]
            fr = bytes.fromhex(f[1])
            if not all(C.utf8(x) for x in ident + names):
                continue
            obj = C.frame_obj(fr[:-1]) if fr.endswith(b"\x00") else "no-frame"
            want = {k: v.decode() for k, v in zip(("vendor", "product", "version", "url"), ident) if v}
            want["interfaces"] = [n.decode() for n in names]
            if obj != {"parameters": want}:
                return "GetInfo replied %r, expected %r" % (fr[:300], want)
            if "client" in f:
                ci = f.index("client")
                got = f[ci + 1:]
                wantc = ["S" + S.hx(x) for x in ident] + ["[" + ",".join(S.hx(n) for n in names) + "]"]
                if got != wantc:
                    return "client GetInfo returned %s, expected %s" % (got, wantc)
        elif op[0] == "call":
            m = op[1]
            if not C.utf8(m):
                continue
            if res.split(" ")[1].startswith("X"):
                return "the call %r was not answered: the service reported %s" % (m, res.split(" ", 1)[1][1:200])
            fr = bytes.fromhex(res.split(" ")[1])
            obj = C.frame_obj(fr[:-1]) if fr.endswith(b"\x00") else "no-frame"
            rt = S.route_py(names[1:], m)
            want = S.std_reply("N", rt[2].decode()) if rt[0] == "dispatch" else S.std_reply("I", rt[1].decode()) if rt[0] == "nointerface" else None
            if want is not None and obj != want:
                return "call %r with %d interfaces registered replied %r, expected %r" % (m, len(names) - 1, fr[:300], want)
        elif op[0] == "descr":
            name = op[1]
            f = res.split(" ")
            if f[1].startswith("X"):
                return "GetInterfaceDescription(%r) was not answered: the service reported %s" % (name, res.split(" ", 1)[1][1:200])
            fr = bytes.fromhex(f[1])
            if not C.utf8(name):
                continue
            obj = C.frame_obj(fr[:-1]) if fr.endswith(b"\x00") else "no-frame"
            if name != b"" and name in descrs:
                d = descrs[name]
                if not C.utf8(d):
                    continue
                want = {"parameters": ({"description": d.decode()} if d else {})}
                wantc = ["S" + S.hx(d)]
            else:
                want = S.std_reply("P", "interface")
                wantc = ["std", "P", b"interface".hex()]
            if obj != want:
                return "GetInterfaceDescription(%r) replied %r, expected %r" % (name, fr[:300], want)
            if "client" in f and f[f.index("client") + 1:] != wantc:
                return "client GetInterfaceDescription(%r) returned %s, expected %s" % (name, f[f.index("client") + 1:], wantc)
    return None


def resolver_case(rng):
    """Resolver helpers against a service that implements org.varlink.resolver with scripted replies"""
    v, p, ver, u = [rng.choice(TEXTS[:8]) for _ in range(4)]
    ifs = [rng.choice(NAMES[:6]) for _ in range(rng.choice([0, 1, 3]))]
    style = rng.choice(["lower", "Title", "UPPER"])
    key = lambda k: {"lower": k, "Title": k.capitalize() if k != "url" else "URL", "UPPER": k.upper()}[style]
    info = "{%s}" % ",".join("%s:S%s;" % (key(k).encode().hex(), x.hex()) for k, x in (("vendor", v), ("product", p), ("version", ver), ("url", u)))
    info = info[:-1] + ",%s:[%s]}" % (key("interfaces").encode().hex(), ",".join("S%s;" % i.hex() for i in ifs))
    addr = rng.choice([b"unix:/run/x", b"tcp:127.0.0.1:1234", b"", "unix:@ä".encode()])
    secs = ["svc 76 70 31 75 -", "iface %s %s" % (b"org.varlink.resolver".hex(), b"interface org.varlink.resolver\nmethod Resolve() -> ()".hex()),
            "script %s r0e:%s ret0" % (b"org.varlink.resolver.GetInfo".hex(), info),
            "script %s r0e:{61646472657373:S%s;} ret0" % (b"org.varlink.resolver.Resolve".hex(), addr.hex()),
            "transport unixfs", "resolver-getinfo", "resolve %s" % rng.choice([b"a.b", b"org.varlink.resolver", b"x.y"]).hex()]
    exp = ["S" + S.hx(x) for x in (v, p, ver, u)] + ["[" + ",".join(S.hx(i) for i in ifs) + "]"]
    return " | ".join(secs), (exp, addr)


def main(pid, argv):
    ck = V.Check(pid, argv)
    ck.rule = ("histories over {register(name, description), duplicate register, two concurrent registrations of one name, listen, register while listening (incl. while a stopped service still drains an open connection), shutdown, register again, listen again through Listen or Bind+DoListen, GetInfo, "
               "GetInterfaceDescription(name), call(method string) before and after registrations} on one real Service object with identity strings and descriptions from a pool (empty, unicode, control characters, "
               "quotes, long, invalid UTF-8); replies observed through HandleMessage directly and, while listening, through the client helpers; plus Resolver.GetInfo / "
               "Resolver.Resolve against a scripted resolver service. distinct = distinct histories; non-trivial = history with a refused registration or a description query")
    ck.assumptions = ["interface names are non-empty (an interface registered under the empty name is listed but not describable: recorded, not claimed)",
                      "identity strings / descriptions that are not valid UTF-8 are compared with the model only"]
    ck.check_obligations()
    bins = C.build(ck, ("h_reg", "h_e2e", "h_relay"))
    if bins is None:
        return ck.finish()
    rng = ck.rng
    thorough = ck.tier == "thorough"
    if ck.replay:
        rp = json.load(open(ck.replay))["failing"]
        hs, rs = ([(rp["case"], None)], []) if rp["kind"] == "reg-history" else ([], [(rp["case"], None)])
    else:
        hs = [gen_history(rng) for _ in range(5000 if thorough else 500)]
        rs = [resolver_case(rng) for _ in range(1000 if thorough else 100)]
    lines = [h[0] for h in hs]
    impl = C.run_sharded([bins["h_reg"]], lines) if lines else []
    model = V.run_model_parallel("reg-run", lines) if lines else []
    nf = 0
    for (line, meta), il, ml in zip(hs, impl, model):
        ck.evaluations += 1
        results = il.split(" ; ")
        bad = None
        if il.startswith(("PANIC", "CRASH", "HANG")):
            bad = il[:300]
        elif meta is not None:
            ident, hist = meta
            if len(results) != len(hist):
                bad = "history has %d operations, %d results" % (len(hist), len(results))
            else:
                bad = spec(ident, hist, results)
            if any(r == "x" for r in results) or any(o[0] == "descr" for o in hist):
                ck.distinct.add(line)
            for o in hist:
                ck.count("op:" + o[0])
        if bad:
            nf += 1
            ck.fail("reg-history", line, bad, impl=il[:1500], model=ml[:1500])
        elif il != ml:
            ck.tie_broken("history results differ from the model", line[:1200], il[:800], ml[:800])
    rlines = [r[0] for r in rs]
    rimpl = _run(bins["h_e2e"], rlines) if rlines else []
    rmodel = V.run_model_parallel("e2e-run", rlines) if rlines else []
    for (line, meta), il, ml in zip(rs, rimpl, rmodel):
        ck.evaluations += 1
        ck.count("op:resolver")
        ck.distinct.add(line)
        bad = None
        ops = il.split(" || ")[0].split(" ; ")
        if meta is not None:
            exp, addr = meta
            if len(ops) != 2 or ops[0] != "rinfo=ok " + " ".join(exp):
                bad = "Resolver.GetInfo returned %s, expected %s" % (ops[:1], exp)
            elif "resolve %s" % b"org.varlink.resolver".hex() in line:
                if ops[1] != "addr=self":
                    bad = "Resolve(org.varlink.resolver) must answer with the resolver's own address: " + ops[1]
            elif C.utf8(addr) and ops[1] != "addr=ok S" + S.hx(addr):
                bad = "Resolver.Resolve returned %s, expected %r" % (ops[1], addr)
        if bad:
            nf += 1
            ck.fail("resolver", line, bad, impl=il[:1200], model=ml[:1200])
        elif il.split(" released=")[0] != ml:
            ck.tie_broken("resolver helper results differ from the model", line[:1200], il[:600], ml[:600])
    ck.extra["failing_inputs_total"] = nf
    for (line, _), il in list(zip(hs, impl))[:: max(1, len(hs) // 4)]:
        ck.sample(dict(case=line[:300], impl=il[:300]))
    return ck.finish()
