# C03 — Call and reply parameters survive the round trip unchanged.
import json
import os
import vcheck as V
import svcgen as S
import jsongen as J
from props import svccommon as C

RELAY_ENV = dict(os.environ, VERIF_RELAY=os.path.join(V.BIN, "h_relay"))


def gen_case(rng, transport):
    iface = rng.choice([b"a.b", b"org.example.more", b"x.y"])
    secs = ["svc 76 70 31 75 -", "iface %s %s" % (S.hx(iface), S.hx(b"interface " + iface + b"\nmethod M() -> ()"))]
    ops, expect = [], []
    for mi in range(rng.choice([1, 2, 4])):
        m = iface + b".M%d" % mi
        k = rng.choice([0, 0, 1, 2, 3, 10, 50]) if mi == 0 else rng.choice([0, 1, 2])
        vals = [rng.choice(["N", "{}", J.rand_object(rng, 3), J.rand_object(rng, 2), J.rand_object(rng, 3, maps=False)]) for _ in range(k + 1)]
        if rng.random() < 0.12:
            # frames around and beyond the read buffer's size (4096) and the socket buffer's (64 KiB and more)
            vals[rng.randrange(len(vals))] = "{70:S%s;,6e:D31;}" % (b"r" * rng.choice([4000, 4080, 4097, 9000, 70000])).hex()
        steps = [S.Step("r", "e", cont=(j < k), val=v) for j, v in enumerate(vals)]
        secs.append(S.script_text(m, steps, False))
        params = rng.choice(["-", "{}", J.rand_object(rng, 3), J.rand_object(rng, 3), J.rand_object(rng, 4, maps=False)])
        if rng.random() < 0.12:
            params = "{71:S%s;}" % (b"q" * rng.choice([4000, 4060, 4097, 9000, 70000])).hex()
        more = k > 0 or rng.random() < 0.2
        ops.append("call %d %s %s %d" % (1 if more else 0, m.hex(), params, k + 1))
        expect.append((params, vals, more))
    if rng.random() < 0.15:
        # the handler sends its replies and then ends the connection itself (returns an error) while the client is still busy with the
        # first replies: everything that was sent before must still arrive
        m = iface + b".Last"
        k = rng.choice([4, 9, 20])
        vals = ["{70:S%s;,6e:D%s;}" % ((b"z" * rng.choice([10, 700, 5000])).hex(), str(j).encode().hex()) for j in range(k + 1)]
        secs.append(S.script_text(m, [S.Step("r", "e", cont=(j < k), val=v) for j, v in enumerate(vals)], True))
        ops.append("slowcall 1 %s {} %d" % (m.hex(), k + 1))
        expect.append(("{}", vals, True))
        if rng.random() < 0.6:
            transport = "bridge"      # the bridge process ends by itself when the service hangs up
    if rng.random() < 0.12 and ops:
        # pipelined: a sliding window of two calls in flight over methods with distinguishable replies (compared with the model only)
        wm = []
        for wi in range(rng.choice([3, 4, 6])):
            m = iface + b".W%d" % wi
            secs.append(S.script_text(m, [S.Step("r", "e", val="{77:D%s;}" % str(wi).encode().hex())], False))
            wm.append(m.hex())
        if rng.random() < 0.4:
            # a call under a short deadline, an idle connection until that deadline has passed, then calls under context.Background()
            return " | ".join(secs + ["transport " + transport] + ["stale " + ",".join(wm[:3])]), ("window", min(3, len(wm)))
        return " | ".join(secs + ["transport " + transport] + ["window " + ",".join(wm)]), ("window", len(wm))
    return " | ".join(secs + ["transport " + transport] + ops), expect


def conc_case(rng, n_conn):
    """many connections served at once, every reply a different large value: what one connection receives must not depend on the others"""
    secs = ["svc 76 70 31 75 -", "iface %s %s" % (S.hx(b"a.b"), S.hx(b"interface a.b\nmethod M() -> ()"))]
    scripts = {}
    for mi in range(6):
        m = b"a.b.M%d" % mi
        val = "{6964:D%s;,73:S%s;,626c6f62:S%s;}" % (str(2 ** 53 + 7 + mi * 1000003).encode().hex(), ("\u00fc\u2713 %d" % mi).encode().hex(),
                                                    (bytes([97 + mi]) * rng.choice([100, 3000, 70000])).hex())
        steps = [S.Step("r", "e", val=val)]
        scripts[m] = (steps, False)
        secs.append(S.script_text(m, steps, False))
    conns = []
    for _ in range(n_conn):
        calls, data = [], b""
        for _ in range(rng.choice([3, 6])):
            m = rng.choice(sorted(scripts))
            calls.append(C.Call(m, b"{}"))
            data += S.call_bytes(rng, m, b"{}", False, False, False, canonical=True) + b"\x00"
        conns.append((calls, data))
        secs.append("conn half %s" % data.hex())
    meta = dict(registry=[b"a.b"], descrs={S.SVC: C.svc_descr(), b"a.b": b"interface a.b\nmethod M() -> ()"}, scripts=scripts, conns=conns,
                info={"vendor": "v", "product": "p", "version": "1", "url": "u", "interfaces": [S.SVC.decode(), "a.b"]}, comparable=True)
    return " | ".join(secs), meta


def main(pid, argv):
    ck = V.Check(pid, argv)
    ck.rule = ("cases: real client <-> real service; call parameters and reply parameters are generated JSON objects (nested arrays/objects/Go maps, integers "
               "beyond 2^53, exponents, empty objects, null members, unicode, control and invalid-UTF-8 strings, frames of 4 KiB - 70 KiB); more-sequences of length 0..50; transports "
               "filesystem unix socket, abstract unix socket, TCP loopback, bridge subprocess; plus 16-48 connections served at once, each receiving different replies "
               "of 100 B - 70 KiB (integers above 2^53, unicode). distinct = distinct case lines; non-trivial = a call with non-empty parameters")
    ck.assumptions = ["strings that are not valid UTF-8 are excluded from the JSON-equality oracle (Go replaces invalid bytes by U+FFFD: stated hypothesis utf8_valid); they are still compared with the model",
                      "the four OS transports are sampled, not modelled beyond 'reliable byte stream'"]
    ck.check_obligations()
    bins = C.build(ck, ("h_e2e", "h_relay", "h_svc"))
    if bins is None:
        return ck.finish()
    rng = ck.rng
    thorough = ck.tier == "thorough"
    transports = ["unixfs", "unixabs", "tcp", "bridge"]
    cases = []
    if ck.replay:
        lines, exps = [json.load(open(ck.replay))["failing"]["case"]], [None]
    else:
        for i in range(5000 if thorough else 400):
            cases.append(gen_case(rng, transports[i % 4] if (thorough or i % 5 == 0) else transports[(i % 2) * 2]))
        lines, exps = [c[0] for c in cases], [c[1] for c in cases]
    # the bridge needs the relay binary
    impl = _run(bins["h_e2e"], lines)
    model = V.run_model_parallel("e2e-run", lines)
    ck.evaluations = len(lines)
    nf = 0
    texts = []
    for line, exp, il, ml in zip(lines, exps, impl, model):
        tr = line.split("transport ")[1].split()[0]
        ck.count("transport:" + tr)
        bad = None
        if " || " not in il:
            bad = "run failed: " + il[:300]
        else:
            ops_s, tail = il.split(" || ", 1)
            ops = ops_s.split(" ; ") if ops_s else []
            log0 = tail[tail.index("log0=[") + 6:tail.index("] log1=")]
            entries = [e for e in log0.split(";") if e]
            if isinstance(exp, tuple) and exp[0] == "window":
                # each receive must yield the reply of its own call: replies are never lost, duplicated or handed to another call
                wgot = ops_s.split("win=")[1].split(" ")[0].split(",") if "win=" in ops_s else []
                wwant = ["R" + (b'{"w":%d}' % i).hex() for i in range(exp[1])]
                if wgot != wwant:
                    bad = "pipelined calls (window of two in flight): the receives yielded %s, the handlers replied %s" % (wgot, wwant)
                exp = None
            if exp is not None:
                if len(ops) != len(exp) or len(entries) != len(exp):
                    bad = "expected %d completed calls, got %d results / %d dispatches" % (len(exp), len(ops), len(entries))
                else:
                    for (params, vals, more), op, en in zip(exp, ops, entries):
                        if params not in ("-", "{}"):
                            ck.distinct.add(line)
                        # what the handler read
                        got = en.split(" ")[1]
                        want = C.params_py(params)
                        if want == ("omit",):
                            if got != "N":
                                bad = "handler saw parameters %s for a call without parameters" % got
                        elif want is not None and want != "marshal-error":
                            if not got.startswith("R") or C.frame_obj(bytes.fromhex(got[1:])) != want[1]:
                                bad = "handler read %s, client passed %s" % (got[:200], params[:200])
                            texts.append(bytes.fromhex(got[1:]))
                        # what the client received
                        rec = [t for t in op.split("recv=")[1:]]
                        if len(rec) != len(vals):
                            bad = "client received %d replies, handler sent %d" % (len(rec), len(vals))
                            break
                        for j, (r, v) in enumerate(zip(rec, vals)):
                            f = r.split()
                            if f[0] != "ok":
                                bad = "reply %d: %s" % (j, r)
                                break
                            cont = f[1] == "4"
                            if cont != (j < len(vals) - 1):
                                bad = "reply %d of %d has continues=%s" % (j, len(vals), cont)
                                break
                            w = C.params_py(v)
                            if w == ("omit",):
                                if f[2] != "N":
                                    bad = "reply %d: parameters %s although the handler passed none" % (j, f[2])
                            elif w is not None and w != "marshal-error":
                                if not f[2].startswith("R") or C.frame_obj(bytes.fromhex(f[2][1:])) != w[1]:
                                    bad = "reply %d: client got %s, handler replied %s" % (j, f[2][:200], v[:200])
                        if bad:
                            break
        if bad:
            nf += 1
            ck.fail("e2e-roundtrip", line, bad, impl=il[:1500], model=ml[:1500])
            continue
        if il.split(" released=")[0] != ml:
            ck.tie_broken("client/handler observables differ from the model", line[:1500], il[:800], ml[:800])
        elif "released=1" not in il:
            ck.fail("e2e-roundtrip", line, "connection not released after the client closed", impl=il[-100:])
    # ---- many connections at once ----
    if not ck.replay or json.load(open(ck.replay))["failing"]["kind"] == "svc-concurrent":
        if ck.replay:
            ccases = [(json.load(open(ck.replay))["failing"]["case"], None)]
        else:
            ccases = [conc_case(rng, rng.choice([16, 24, 48] if thorough else [16, 24])) for _ in range(60 if thorough else 8)]
        clines = [c[0] for c in ccases]
        cimpl = C.run_impl(bins["h_svc"], clines, jobs=4)
        cmodel = C.run_model(clines)
        for (line, meta), il, ml in zip(ccases, cimpl, cmodel):
            ck.evaluations += 1
            ck.count("concurrent-connections", line.count(" | conn "))
            ck.distinct.add(line[:4000])
            iconns, isvc = C.split_result(il)
            mconns, _ = C.split_result(ml)
            bad = None
            if iconns is None:
                bad = "service run failed: " + il[:200]
            elif meta is not None:
                for ci, cs in enumerate(iconns):
                    bad = bad or C.check_conn(meta, meta["conns"][ci][0], cs, ci)
            if bad:
                nf += 1
                ck.fail("svc-concurrent", line, bad[:600], impl=il[:600], model=ml[:600])
            elif iconns != mconns:
                ck.tie_broken("per-connection bytes differ from the model under concurrent connections", line[:800], il[:400], ml[:400])
    ck.extra["failing_inputs_total"] = nf
    for line, il in list(zip(lines, impl))[:: max(1, len(lines) // 4)]:
        ck.sample(dict(case=line[:400], impl=il[:300]))
    texts = [t for t in dict.fromkeys(texts) if len(t) < 150][:150]
    if texts:
        outs = V.run_model("json-parse", [V.hexs(t) for t in texts])
        pairs = ["(%s, %s)" % (V.coq_bytes(t), V.coq_bytes(o.encode())) for t, o in zip(texts, outs)]
        ck.vm_crosscheck("Bytes Json JsonDump", pairs, "(fun t e => bytes_eqb (json_parse_case t) e)")
    return ck.finish()


def _run(binp, lines):
    from concurrent.futures import ThreadPoolExecutor
    jobs = 8
    n = (len(lines) + jobs - 1) // jobs
    parts = [lines[i:i + n] for i in range(0, len(lines), n)]

    def one(p):
        rc, out, err = V.run_lines([binp], p, 1800, env=RELAY_ENV)
        if len(out) != len(p):
            out = out + ["CRASH rc=%s %s" % (rc, err.strip()[-300:].replace("\n", " "))] * (len(p) - len(out))
        return out
    with ThreadPoolExecutor(jobs) as ex:
        res = list(ex.map(one, parts))
    return [x for r in res for x in r]
