# C12 — Error replies keep their name and parameters end to end.
import json
import vcheck as V
import svcgen as S
import jsongen as J
from props import svccommon as C
from props.c03 import _run


def rand_name(rng):
    r = rng.random()
    if r < 0.35:
        return rng.choice(S.ERR_NAMES)
    parts = [rng.choice([b"a", b"org", b"varlink", b"service", b"", b"X", b"org.varlink.service", b"org.varlink", "ü".encode(), b"E1", b" ", b"a b"])
             for _ in range(rng.choice([1, 2, 3, 4, 5]))]
    return b".".join(parts)


def gen_case(rng, transport):
    iface = b"a.b"
    secs = ["svc 76 70 31 75 -", "iface %s %s" % (S.hx(iface), S.hx(b"interface a.b\nmethod M() -> ()"))]
    if rng.random() < 0.75:
        name = rand_name(rng)
        val = rng.choice(["N", "{}", J.rand_object(rng, 3), J.rand_object(rng, 2, maps=False), "R" + J.text_of(rng, None, 2).hex() + ";"])
        if val == "R;":
            val = "N"
        step = S.Step("e", "s", name=name, val=val)
        exp = ("err", name, val)
    else:
        k = rng.choice("IMNP")
        arg = rng.choice([b"x", b"", b"a.b", "é".encode(), b"parameters", b"org.varlink.service", J.rand_string(rng)])
        step = S.Step("s", "s", std=k, arg=arg)
        exp = ("std", k, arg)
    flags = rng.choice([0, 0, 0, 1])
    steps = [step, S.Step("r", "e", val="{66616c6c6261636b:T}")]
    nrecv = 1
    if rng.random() < 0.3:
        # a More call: a continues-reply with parameters comes first; the error that follows must not inherit anything from it
        flags, nrecv = 1, 2
        steps = [S.Step("r", "e", cont=True, val="{6b657074:S%s;,61:D37;}" % b"from the first reply".hex())] + steps
        exp = exp + ("after-continues",)
    elif rng.random() < 0.25:
        # a streaming handler that marked the call as continuing, for a client that did not ask for more: the continues-reply is refused
        # (nothing written), the error that follows must go out as usual
        flags = 0
        steps = [S.Step("r", "c", cont=True, val="{6b657074:S%s;}" % b"refused, never written".hex())] + steps
    secs.append(S.script_text(b"a.b.M", steps, False))
    # the same call again from a caller with a typed reply struct (fields a, b, k, method, parameters, interface, parameter of other types than the error carries)
    ops = ["call %d %s {} %d" % (flags, b"a.b.M".hex(), nrecv)] + (["typedcall %s {}" % b"a.b.M".hex(), "upcall %s {}" % b"a.b.M".hex()] if nrecv == 1 else [])
    return " | ".join(secs + ["transport " + transport] + ops), exp


def main(pid, argv):
    ck = V.Check(pid, argv)
    ck.rule = ("cases: a handler calls ReplyError with names from an error-name grammar (dots anywhere, empty parts, unicode, NUL, the reserved namespace "
               "org.varlink.service and near-misses such as org.varlink.servicex.E / org.varlink.service / org.varlink.service.sub.E) x JSON parameter objects "
               "incl. none, or one of the four standard-error helpers with arbitrary strings; a real client receives the reply, once into a raw out value, once into a typed struct whose field names collide with error parameters, and once through Connection.Upgrade. When the error is refused "
               "the handler sends a marker reply instead, so the client observes the refusal. distinct = distinct (name, parameters); non-trivial = name contains a dot")
    ck.assumptions = ["names that are not valid UTF-8 are compared with the model only"]
    ck.check_obligations()
    bins = C.build(ck, ("h_e2e", "h_relay"))
    if bins is None:
        return ck.finish()
    rng = ck.rng
    thorough = ck.tier == "thorough"
    if ck.replay:
        lines, exps = [json.load(open(ck.replay))["failing"]["case"]], [None]
    else:
        cs = [gen_case(rng, ["unixfs", "tcp", "unixabs"][i % 3]) for i in range(20000 if thorough else 1500)]
        lines, exps = [c[0] for c in cs], [c[1] for c in cs]
    impl = _run(bins["h_e2e"], lines)
    model = V.run_model_parallel("e2e-run", lines)
    ck.evaluations = len(lines)
    nf = 0
    for line, exp, il, ml in zip(lines, exps, impl, model):
        bad = None
        if " || " not in il:
            bad = "run failed: " + il[:300]
        elif exp is not None:
            ops = il.split(" || ")[0].split(" ; ")
            op = ops[0]
            recs = [x.strip() for x in op.split("recv=")[1:]]
            after = exp[-1] == "after-continues"
            if after:
                exp = exp[:-1]
                if not recs or not recs[0].startswith("ok 4 R"):
                    bad = "the continues-reply that precedes the error arrived as %s" % (recs[:1],)
                recs = recs[1:]
            rec = recs[0] if recs else "none"
            trec = ops[1].split("tcall=")[1].strip() if len(ops) > 1 and "tcall=" in ops[1] else ("none" if not after else rec if rec.startswith(("err ", "std ")) else "ok")
            if bad:
                pass
            elif exp[0] == "err":
                _, name, val = exp
                ck.count("name:" + ("accepted" if S.error_name_ok(name) else "refused"))
                if b"." in name:
                    ck.distinct.add((name, val))
                if S.error_name_ok(name):
                    if C.utf8(name):
                        f = rec.split()
                        if f[0] != "err" or bytes.fromhex(f[1]) != name:
                            bad = "client got %r for error name %r" % (rec[:200], name)
                        else:
                            w = C.params_py(val)
                            if w == ("omit",):
                                if f[2] != "N":
                                    bad = "error parameters %s although none were passed" % f[2]
                            elif w == "marshal-error":
                                bad = None
                            elif w is not None and w[1] is None:
                                # JSON null parameters are "no parameters" for the receiver
                                if f[2] not in ("N", "R" + b"null".hex()):
                                    bad = "error parameters %s, handler passed null" % f[2]
                            elif w is not None and (not f[2].startswith("R") or C.frame_obj(bytes.fromhex(f[2][1:])) != w[1]):
                                bad = "error parameters %s, handler passed %s" % (f[2][:200], val[:200])
                else:
                    if not rec.startswith("ok 0 R" + b'{"fallback":true}'.hex()):
                        bad = "error name %r must be refused with nothing written, client got %s" % (name, rec[:200])
            else:
                _, k, arg = exp
                ck.count("std:" + k)
                ck.distinct.add((k, arg))
                if C.utf8(arg) and rec != "std %s %s" % (k, S.hx(arg)):
                    bad = "standard error %s(%r) reached the client as %s" % (k, arg, rec[:200])
            if not bad and rec.startswith(("err ", "std ")) and trec != rec:
                bad = "a caller with a typed reply struct got %s where a caller with a raw one got %s" % (trec[:200], rec[:200])
            if not bad and rec.startswith("ok ") and trec != "ok":
                bad = "typed caller got %s for the fallback reply" % trec[:200]
            urec = ops[2].split("ucall=")[1].strip() if len(ops) > 2 and "ucall=" in ops[2] else None
            if not bad and urec is not None and rec.startswith(("err ", "std ")) and urec != rec:
                bad = "through Connection.Upgrade the error arrived as %s, through Send as %s" % (urec[:200], rec[:200])
        if bad:
            nf += 1
            ck.fail("e2e-error", line, bad, impl=il[:1200], model=ml[:1200])
            continue
        if il.split(" released=")[0] != ml:
            ck.tie_broken("client observables differ from the model", line[:1200], il[:600], ml[:600])
    ck.extra["failing_inputs_total"] = nf
    for line, il in list(zip(lines, impl))[:: max(1, len(lines) // 4)]:
        ck.sample(dict(case=line[:400], impl=il[:300]))
    return ck.finish()
