# Shared runner for the service-side properties (C01, C02, C04, C10, C12, C13).
import json
import os
from concurrent.futures import ThreadPoolExecutor
import vcheck as V
import idlgen
import svcgen as S
import jsongen as J


def svc_descr():
    ds = idlgen.repo_descriptions()
    return ds[1] if len(ds) > 1 else b""


def build(ck, names=("h_svc",)):
    ok, out = V.build_driver()
    if not ok:
        ck.broken.append("model driver build failed: " + out[-500:])
        return None
    bins = {}
    for n in names:
        ok, out, binp = V.build_go(n)
        if not ok:
            ck.broken.append("harness %s does not build against /repo: %s" % (n, out[-800:]))
            return None
        bins[n] = binp
    return bins


def run_sharded(cmd, lines, jobs=8, timeout=1800):
    if not lines:
        return []
    jobs = max(1, min(jobs, len(lines) // 20 + 1))
    n = (len(lines) + jobs - 1) // jobs
    parts = [lines[i:i + n] for i in range(0, len(lines), n)]

    def one(p):
        rc, out, err = V.run_lines(cmd, p, timeout)
        if len(out) != len(p):
            out = out + ["CRASH rc=%s %s" % (rc, err.strip()[-300:].replace("\n", " "))] * (len(p) - len(out))
        return out
    with ThreadPoolExecutor(jobs) as ex:
        res = list(ex.map(one, parts))
    return [x for r in res for x in r]


def run_impl(binp, lines, jobs=8):
    return run_sharded([binp], lines, jobs)


def run_model(lines):
    return V.run_model_parallel("svc-run", lines)


def split_result(line):
    """-> (list of per-connection strings, service-level dict)"""
    if " || " not in line:
        return None, {"raw": line}
    conns, tail = line.split(" || ", 1)
    d = dict(kv.split("=", 1) for kv in tail.split() if "=" in kv)
    return conns.split(" | "), d


def conn_fields(s):
    """out=<hex> log=[...] ovl=x -> (out bytes or None, [entries], ovl)"""
    out = s[len("out="):s.index(" log=[")]
    log = s[s.index(" log=[") + 6:s.rindex("] ovl=")]
    ovl = s[s.rindex("ovl=") + 4:]
    ob = None
    if out == "-":
        ob = b""
    elif not out.startswith("TIMEOUT"):
        try:
            ob = bytes.fromhex(out)
        except ValueError:
            ob = None
    return ob, [e for e in log.split(";") if e], ovl


class Call:
    def __init__(self, method, params, more=False, oneway=False, upgrade=False, bad=False):
        self.method, self.params, self.more, self.oneway, self.upgrade, self.bad = method, params, more, oneway, upgrade, bad


def utf8(b):
    try:
        b.decode("utf-8")
        return True
    except UnicodeDecodeError:
        return False


def gen_service(rng, n_if=None, simple_scripts=False, pool=None):
    """-> (sections, meta) : a service with interfaces, descriptions and scripted methods"""
    pool = pool or S.IFACE_POOL
    n_if = rng.choice([1, 1, 2, 3]) if n_if is None else n_if
    ifaces = rng.sample(pool, min(n_if, len(pool)))
    vendor, product, version, url = [rng.choice([b"v", b"", b"Vendor <x>", "é".encode(), b"p\x00q"]) for _ in range(4)]
    secs = ["svc %s %s %s %s %s" % (S.hx(vendor), S.hx(product), S.hx(version), S.hx(url), S.hx(svc_descr()))]
    descrs = {S.SVC: svc_descr()}
    for i in ifaces:
        d = b"interface " + i + b"\nmethod M() -> ()"
        descrs[i] = d
        secs.append("iface %s %s" % (S.hx(i), S.hx(d)))
    scripts = {}
    for i in ifaces:
        for m in rng.sample(S.METHODS, rng.choice([1, 2, 3])):
            if simple_scripts:
                steps, ret = [S.Step("r", "e", val="{77686f:S%s;}" % (i + b"." + m).hex())], False
            else:
                steps, ret = S.rand_script(rng)
            scripts[i + b"." + m] = (steps, ret)
            secs.append(S.script_text(i + b"." + m, steps, ret))
    info = {}
    for k, v in (("vendor", vendor), ("product", product), ("version", version), ("url", url)):
        if v:
            info[k] = v.decode("utf-8", "replace")
    info["interfaces"] = [S.SVC.decode()] + [i.decode("utf-8") for i in ifaces]
    return secs, dict(registry=ifaces, descrs=descrs, scripts=scripts, info=info,
                      comparable=all(utf8(v) for v in (vendor, product, version, url)))


def meet_case(rng):
    """two connections whose handlers can only finish if the service runs them at the same time; the second connection is
    opened while the first one's handler is already running"""
    import jsongen as J
    secs = ["svc 76 70 31 75 -", "iface %s %s" % (S.hx(b"a.b"), S.hx(b"interface a.b\nmethod M() -> ()"))]
    scripts, conns = {}, []
    k = "k%d" % rng.randrange(1000)
    for mi, mode in enumerate(["half", "late"]):
        m = b"a.b.Meet%d" % mi
        steps = [S.Step("b", "c", arg=k.encode()), S.Step("r", "e", val="{77686f:S%s;}" % m.hex())]
        scripts[m] = (steps, False)
        secs.append(S.script_text(m, steps, False))
    for mi, mode in enumerate(["half", "late"]):
        m = b"a.b.Meet%d" % mi
        calls = [Call(m, b"{}")] + ([Call(b"org.varlink.service.GetInfo", None)] if rng.random() < 0.5 else [])
        data = b"".join(S.call_bytes(rng, c.method, c.params, False, False, False) + b"\x00" for c in calls)
        conns.append((calls, data))
        secs.append("conn %s %s" % (mode, data.hex()))
    meta = dict(registry=[b"a.b"], descrs={S.SVC: svc_descr(), b"a.b": b"interface a.b\nmethod M() -> ()"}, scripts=scripts, conns=conns,
                info={"vendor": "v", "product": "p", "version": "1", "url": "u", "interfaces": [S.SVC.decode(), "a.b"]}, comparable=True)
    return " | ".join(secs), meta


def deadline_reply_case(rng):
    """one connection: a handler replies under a context with a 50 ms deadline; more than 50 ms later another call is answered
    under the plain context: whatever the first reply left on the connection must not fail the second"""
    secs = ["svc 76 70 31 75 -", "iface %s %s" % (S.hx(b"a.b"), S.hx(b"interface a.b\nmethod M() -> ()"))]
    s1 = [S.Step("d", "e", val="{6e:D31;}")]
    s2 = [S.Step("r", "e", val="{6e:D32;}")]
    scripts = {b"a.b.Bounded": (s1, False), b"a.b.Plain": (s2, False)}
    secs += [S.script_text(b"a.b.Bounded", s1, False), S.script_text(b"a.b.Plain", s2, False)]
    calls = [Call(b"a.b.Bounded", b"{}"), Call(b"a.b.Plain", b"{}")] + ([Call(b"org.varlink.service.GetInfo", None)] if rng.random() < 0.5 else [])
    fr = [S.call_bytes(rng, c.method, c.params, False, False, False, canonical=True) + b"\x00" for c in calls]
    chunks = [fr[0], fr[1][:1], fr[1][1:2], fr[1][2:]] + fr[2:]       # 40 ms apart: the second call is complete 120 ms after the first
    secs.append("conn slow %s" % ",".join(c.hex() for c in chunks))
    meta = dict(registry=[b"a.b"], descrs={S.SVC: svc_descr(), b"a.b": b"interface a.b\nmethod M() -> ()"}, scripts=scripts, conns=[(calls, b"".join(fr))],
                info={"vendor": "v", "product": "p", "version": "1", "url": "u", "interfaces": [S.SVC.decode(), "a.b"]}, comparable=True)
    return " | ".join(secs), meta


def fresh_methods_case(rng):
    """eight connections at once, each sending 60 calls whose method strings nobody has used before (known interface, new method name)"""
    secs = ["svc 76 70 31 75 -", "iface %s %s" % (S.hx(b"a.b"), S.hx(b"interface a.b\nmethod M() -> ()"))]
    conns = []
    tag = rng.randrange(10 ** 6)
    for ci in range(8):
        calls = [Call(b"a.b.F%d_%d_%d" % (tag, ci, k), None) for k in range(60)]
        data = b"".join(S.call_bytes(rng, c.method, None, False, False, False, canonical=True) + b"\x00" for c in calls)
        conns.append((calls, data))
        secs.append("conn half %s" % data.hex())
    meta = dict(registry=[b"a.b"], descrs={S.SVC: svc_descr(), b"a.b": b"interface a.b\nmethod M() -> ()"}, scripts={}, conns=conns,
                info={"vendor": "v", "product": "p", "version": "1", "url": "u", "interfaces": [S.SVC.decode(), "a.b"]}, comparable=True)
    return " | ".join(secs), meta


def check_conn(meta, calls, cs, ci):
    """Compare one connection's observable with the statement's reading. -> error text or None"""
    out, log, ovl = conn_fields(cs)
    if ovl != "0":
        return "connection %d: a call was dispatched before the previous handler returned" % ci
    if out is None:
        return "connection %d: client did not reach end of stream" % ci
    exp_frames, exp_log = expected_conn(meta["registry"], meta["descrs"], meta["scripts"], calls, meta["info"])
    frames, trailing = frames_of(out)
    if trailing:
        return "connection %d: bytes after the last NUL" % ci
    if log != exp_log:
        return "connection %d: dispatch log differs from the statement's reading: got %s expected %s" % (ci, log[:6], exp_log[:6])
    if len(frames) != len(exp_frames):
        return "connection %d: %d replies written, %d expected" % (ci, len(frames), len(exp_frames))
    for k, (fr, ex) in enumerate(zip(frames, exp_frames)):
        if ex is None or (not meta["comparable"] and isinstance(ex, dict) and "vendor" in str(ex)):
            continue
        if frame_obj(fr) != norm(ex):
            return "connection %d: reply %d is %r, expected %r" % (ci, k, fr[:200], ex)
    return None


def expected_conn(registry, descrs, scripts, calls, info):
    """The reply discipline read directly from the property statements.
    registry: list of registered interface names (bytes); scripts: fullmethod -> (steps, ret); calls: [Call]
    -> (list of expected frames as python objects or None (= not comparable), expected log entries)"""
    frames, log = [], []
    for c in calls:
        if c.bad:
            break           # a frame that does not decode ends the connection silently
        rt = S.route_py(registry, c.method)

        def emit(obj):
            if not c.oneway:
                frames.append(obj)
        if rt[0] == "invalid":
            emit(S.std_reply("P", "method"))
            continue
        if rt[0] == "nointerface":
            try:
                emit(S.std_reply("I", rt[1].decode("utf-8")))
            except UnicodeDecodeError:
                emit(None)
            continue
        if rt[0] == "builtin":
            m = rt[1]
            if m == b"GetInfo":
                emit({"parameters": info})
            elif m == b"GetInterfaceDescription":
                emit(descr_reply(descrs, c.params))
            else:
                try:
                    emit(S.std_reply("M", m.decode("utf-8")))
                except UnicodeDecodeError:
                    emit(None)
            continue
        iface, m = rt[1], rt[2]
        steps, ret = scripts.get(c.method, ([], False))
        res = []
        err = ret
        for st in steps:
            ok = True
            obj = None
            if st.kind in ("b", "w"):
                continue            # a rendezvous with another connection's handler / a pause: no effect of its own
            if st.kind in ("r", "d"):
                if st.cont and not c.more:
                    ok = False
                else:
                    obj = {}
                    pv = params_py(st.val)
                    if pv == "marshal-error":
                        ok = bool(c.oneway)
                        obj = "skip"
                    elif pv is None:
                        obj = None
                    else:
                        if pv != ("omit",):
                            obj["parameters"] = pv[1]
                        if st.cont:
                            obj["continues"] = True
            elif st.kind == "e":
                if not S.error_name_ok(st.name):
                    ok = False
                else:
                    pv = params_py(st.val)
                    if pv == "marshal-error":
                        ok = bool(c.oneway)
                        obj = "skip"
                    else:
                        try:
                            nm = st.name.decode("utf-8")
                            obj = None if pv is None else dict(error=nm, **({} if pv == ("omit",) else {"parameters": pv[1]}))
                        except UnicodeDecodeError:
                            obj = None
            else:
                try:
                    obj = S.std_reply(st.std, st.arg.decode("utf-8"))
                except UnicodeDecodeError:
                    obj = None
            res.append("o" if ok else "x")
            if ok and obj != "skip":
                emit(obj)
            if ok and st.policy == "s":
                err = False
                break
            if not ok:
                if st.policy == "e":
                    err = True
                    break
                if st.policy == "n":
                    err = False
                    break
        else:
            err = ret
        ps = "N" if c.params is None or c.params.strip() == b"null" else "R" + (c.params.strip().hex() or "-")
        log.append(" ".join(["H%s.%s" % (S.hx(iface), S.hx(m)), ps,
                             "".join("T" if x else "F" for x in (c.more, c.oneway, c.upgrade))] + res + ["ret%d" % (1 if err else 0)]))
        if err:
            break
    return frames, log


def descr_reply(descrs, params):
    """org.varlink.service.GetInterfaceDescription read from the property statement (C13)"""
    if params is None or params.strip() == b"null":
        return S.std_reply("P", "parameters")
    try:
        o = json.loads(params.decode("utf-8"))
    except (UnicodeDecodeError, ValueError):
        return None
    if o is None:
        return S.std_reply("P", "interface")
    if not isinstance(o, dict):
        return S.std_reply("P", "parameters")
    name = o.get("interface", "")
    if name is None:
        name = ""
    if not isinstance(name, str):
        return S.std_reply("P", "parameters")
    try:
        key = name.encode("utf-8")
    except UnicodeEncodeError:
        return None
    if name == "" or key not in descrs:
        return S.std_reply("P", "interface")
    try:
        d = descrs[key].decode("utf-8")
    except UnicodeDecodeError:
        return None
    return {"parameters": ({"description": d} if d else {})}


def params_py(val):
    """reply parameter description -> ('omit',) | ('ok', obj) | None (not comparable) | 'marshal-error'"""
    if val in ("N", "-"):
        return ("omit",)
    if val.startswith("R"):
        raw = bytes.fromhex(val[1:-1])
        try:
            return ("ok", S.loads_exact(raw.decode("utf-8")))
        except UnicodeDecodeError:
            return None
        except ValueError:
            return "marshal-error"
    if any(bytes.fromhex(t) in J.BAD_NUMS for t in _num_tokens(val)):
        return "marshal-error"
    r = S.desc_to_py(val)
    if r is None:
        return None
    return ("ok", norm(r[1]))


def _num_tokens(val):
    out, i = [], 0
    while True:
        i = val.find("D", i)
        if i < 0:
            return out
        j = val.find(";", i)
        tok = val[i + 1:j]
        if all(ch in "0123456789abcdef" for ch in tok):
            out.append(tok)
        i = j


def norm(o):
    """canonical form for JSON-equality: numbers by token, objects by member"""
    if isinstance(o, tuple) and o and o[0] == "num":
        return ("num", o[1] if o[1] != "" else "0")
    if isinstance(o, list):
        return [norm(x) for x in o]
    if isinstance(o, dict):
        return {k: norm(v) for k, v in o.items()}
    return o


def frames_of(out):
    """split the bytes a client received into frames; -> (frames, trailing)"""
    parts = out.split(b"\x00")
    return parts[:-1], parts[-1]


def frame_obj(fr):
    try:
        return norm(S.loads_exact(fr.decode("utf-8")))
    except (UnicodeDecodeError, ValueError):
        return "unparseable"
