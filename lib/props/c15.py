# C15 — Idle timeout fires only when idle, and then always.
import os
import time
import vcheck as V
from props import svccommon as C
from props import c14


def main(pid, argv):
    ck = V.Check(pid, argv)
    ck.assumptions = ["expiries are injected through the controlled listener (Accept returns a timeout error); real-clock behaviour is sampled separately with one-sided margins",
                      "well_sequenced as for C14"]
    r = c14.run(ck, pid, lambda i: i % 8 != 0, 1500, 20000,
                "histories over {connect, call, close, accept-timeout expiry, Shutdown} on a real Service started with and without an idle timeout, expiries injected "
                "deterministically through the controlled listener; after a timeout exit the history observes the return value, the listener's Close, the listener "
                "field, the running flag and a further connection attempt. Plus real-clock runs (timeout 150 ms). distinct = distinct histories; non-trivial = history "
                "with an expiry")
    if r:
        real_clock(ck)
    return ck.finish()


def real_clock(ck):
    """one-sided margins on a real listener: must not stop while a connection is open; must stop once idle; endpoint released"""
    ok, out, binp = V.build_go("h_clock")
    if not ok:
        ck.broken.append("harness h_clock does not build: " + out[-400:])
        return
    n = 12 if ck.tier == "thorough" else 3
    rc, outs, err = V.run_lines([binp], ["run %d" % i for i in range(n)], timeout=300)
    for i, o in enumerate(outs):
        ck.evaluations += 1
        ck.count("real-clock")
        ck.distinct.add("clock%d" % i)
        if o != "ok":
            ck.fail("life-realclock", "run %d" % i, "real-clock idle timeout: " + o, impl=o)
