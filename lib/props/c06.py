# C06 — IDL parser: nothing ill-formed accepted, nothing silently ignored.
import itertools
import json
import vcheck as V
import idlgen as G
from props import idlcommon as C


def gen_inputs(ck):
    rng = ck.rng
    thorough = ck.tier == "thorough"
    inputs = []

    def add(kind, xs):
        for x in xs:
            inputs.append((kind, x))

    add("corpus", C.corpus("C06") + C.corpus("C05") + C.corpus("C09"))
    valid = G.repo_descriptions()
    for t in G.enum_types(1):
        for d in G.positions(t)[:3]:
            valid.append(G.render(d, rng, "min"))
    for _ in range(300 if thorough else 40):
        valid.append(G.render(G.rand_idl(rng), rng, rng.choice(["min", "lines", "rand"])))
    add("valid", valid)
    for v in valid:
        add("token-mutation", G.token_mutations(v, rng, limit=None if thorough else 120))
    L = 4 if thorough else 3
    toks = [t.encode() for t in G.TOKENS]
    prefixes = [b"interface a.b\n", b"interface a.b\nmethod M() -> ()\n", b"interface a.b\nmethod M() -> ()\nerror E ",
                b"interface a.b\nmethod M() -> ()\ntype T (", b"interface a.b\nmethod M() -> ()\ntype T (a: int, ",
                b"interface a.b\nmethod M() -> ()\ntype T (a, "]
    for prefix in prefixes:
        for n in range(1, L + 1):
            for seq in itertools.product(toks, repeat=n):
                inputs.append(("tokens", prefix + b"".join(seq)))
    for v in valid[:20 if thorough else 6]:
        add("byte-mutation", G.byte_mutations(v, rng, 2000 if thorough else 300))
    # every byte value (incl. vertical tab, form feed, NEL, NBSP, NUL, DEL ...) inserted / substituted at every offset
    small = b"interface a.b\ntype T (a: ?[]int, b: [string](x, y))\n# d\nmethod M(a: T) -> (b: bool)\nerror E (c: string)\n"
    add("every-byte", G.every_byte_everywhere(small, None if thorough else range(0, len(small) + 1, 3)))
    add("every-byte", G.every_byte_everywhere(b"interface a.b method M()->()"))
    # a malformed token where one is required, with a well-formed look-alike of the same length elsewhere in the text (comment, later word):
    # a reader that searches instead of matching at the cursor picks the look-alike up and skips the junk
    names = [b"a.b", b"xn--a.b", b"xn--9om.example", b"org.example.more", b"xn--ab.c-d.e9"]
    tails = [b"\nmethod M() -> ()\n", b" method M() -> ()", b"\ntype T (a: int)\nmethod M() -> ()\n"]
    for nm in names:
        junks = {b"9" + nm[1:], b"-" + nm[1:], b"." + nm[1:], nm[:1] + b"_" + nm[2:], nm.replace(b".", b"_"), b"9" * len(nm), b"9" + b" " * (len(nm) - 1),
                 b"9.9" + b" " * max(0, len(nm) - 3), nm.upper() if nm.startswith(b"xn--") else b"1" + nm[1:]}
        for j in junks:
            for tl in tails:
                add("lookalike-elsewhere", [b"interface " + j + b"\n# " + nm + tl, b"# " + nm + b"\ninterface " + j + tl, b"interface " + j + nm + tl,
                                            b"interface " + j + tl + b"# " + nm + b"\n", b"interface " + j + b" # see " + nm + tl])
    return inputs


def main(pid, argv):
    ck = V.Check(pid, argv)
    ck.rule = ("inputs: valid descriptions (repository files, bounded-exhaustive constructor x position set, random trees x layouts), every "
               "single-token deletion/insertion/substitution/transposition of them, all token sequences up to a length bound after 6 prefixes, "
               "byte mutations; distinct = distinct byte strings; non-trivial = accepted by the implementation or by the model, or a mutation of a valid text")
    ck.assumptions = ["'most liberal reading' = wf_liberal of Model/Idl.v: names have the shapes the token readers enforce, member names unique, "
                      ">=1 method, no optional of optional, lists all-typed or all-bare"]
    ck.check_obligations()
    binp = C.build(ck)
    if binp is None:
        return ck.finish()
    if ck.replay:
        rp = json.load(open(ck.replay))
        inputs = [("replay", V.unhex(rp["failing"]["case"]))]
    else:
        inputs = gen_inputs(ck)
    seen, uniq = set(), []
    for k, x in inputs:
        if x not in seen:
            seen.add(x)
            uniq.append((k, x))
            ck.count("kind:" + k)
    data = [x for _, x in uniq]
    impl = C.run_impl(binp, data)
    model = C.run_model(data)
    orc = C.oracle_impl(data, impl)
    ck.evaluations = len(data)
    nf = 0
    for idx, ((k, x), il, ml) in enumerate(zip(uniq, impl, model)):
        if il == "SKIPPED":
            continue
        ic, mc = C.cls(il), C.cls(ml)
        ck.count("impl:" + ic)
        if ic == "OK" or mc == "OK" or k in ("token-mutation", "valid"):
            ck.distinct.add(x)
        bad = None
        if ic == "OK":
            o = orc[idx]
            if o != "strip=1 wf=1":
                bad = "accepted, but the tree does not account for the text: " + o
        elif ic != "ERR":
            bad = "neither tree nor error: " + il[:120]
        if bad:
            nf += 1
            if True:
                def still(d, r, want=bad.split(":")[0]):
                    if not r.startswith("OK "):
                        return False
                    o2 = C.oracle_impl([d], [r]).get(0)
                    return o2 is not None and o2 != "strip=1 wf=1"
                small = C.shrink(binp, x, still) if (ic == "OK" and nf <= 4) else x
                ck.fail("idl-unsound-accept", V.hexs(small), bad, impl=il[:400], model=ml[:400],
                        extra=dict(original=V.hexs(x)[:600], generator=k, text=repr(small[:300])))
            continue
        if G.erase_docs(il) != G.erase_docs(ml):
            ck.tie_broken("parse result differs (docs ignored)", V.hexs(x)[:400], il[:200], ml[:200])
    ck.extra["failing_inputs_total"] = nf
    step = max(1, len(uniq) // 6)
    for (k, x), il in list(zip(uniq, impl))[::step]:
        ck.sample(dict(generator=k, input=repr(x[:80]), impl=il[:80]))
    C.crosscheck(ck, data, model)
    return ck.finish()
