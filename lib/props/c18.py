# C18 — Upgraded connections continue the byte stream without loss.
import json
import os
import vcheck as V


def rand_stream(rng, big):
    n_frames = rng.choice([1, 1, 2, 3, 5])
    parts = []
    for _ in range(n_frames):
        ln = rng.choice([0, 1, 2, 5, 17, 60] + ([4000, 4095, 4096, 4097, 8192, 9000] if big else []))
        body = bytes(rng.choice([1, 2, 65, 66, 123, 125, 255]) for _ in range(ln))
        parts.append(body + b"\x00")
    payload = bytes(rng.randrange(256) for _ in range(rng.choice([0, 1, 3, 8, 40] + ([5000] if big else []))))
    return b"".join(parts) + payload, n_frames


def chunkings(rng, s):
    if not s:
        return []
    style = rng.choice(["one", "bytes", "rand", "rand", "frames", "big"])
    if style == "one":
        return [s]
    if style == "bytes" and len(s) <= 64:
        return [s[i:i + 1] for i in range(len(s))]
    if style == "frames":
        # cut right after every NUL: payload coalesced with nothing, frames separate
        out, cur = [], b""
        for ch in s:
            cur += bytes([ch])
            if ch == 0:
                out.append(cur)
                cur = b""
        if cur:
            out.append(cur)
        return out
    cuts = sorted(set(rng.randrange(1, len(s)) for _ in range(rng.choice([1, 2, 4, 9])))) if len(s) > 1 else []
    out, prev = [], 0
    for c in cuts + [len(s)]:
        if c > prev:
            out.append(s[prev:c])
        prev = c
    return out


def gen_ops(rng, n_frames, total):
    ops = []
    for _ in range(rng.choice([1, 2, 3, 5, 8])):
        r = rng.random()
        if r < 0.5:
            ops.append("B00")
        elif r < 0.6:
            ops.append("B%02x" % rng.choice([1, 65, 255, 125]))
        else:
            ops.append("R%d" % rng.choice([1, 1, 2, 3, 7, 64, 512, 4095, 4096, 4097, 8192]))
    return ops


def main(pid, argv):
    ck = V.Check(pid, argv)
    ck.rule = ("cases: random byte streams (frames of 0..9000 bytes + payload) x segmentations (one write, byte-by-byte, random cuts, cut after every NUL, "
               "payload coalesced with the preceding frame) x random sequences of ReadBytes(delim) / Read(n) operations, run on ctxio.Conn over a connection that "
               "delivers exactly those chunks; plus upgraded calls through a real service (handler side) and a real client (Upgrade side) with frame+payload in one "
               "segment; plus 20 MiB of raw payload in one direction and a raw read that stays blocked while writes on the same connection complete. distinct = distinct (chunks, ops); non-trivial = at least one raw read after a frame read")
    ck.assumptions = ["chunks are non-empty (a conn.Read returning 0 bytes without error is outside the model)",
                      "bufio's buffer is modelled with its real discipline (capacity 4096 in Go, arbitrary cap >= 1 in the theorems)"]
    ck.check_obligations()
    ok, out = V.build_driver()
    if not ok:
        ck.broken.append("driver build: " + out[-400:])
    ok, out, binp = V.build_go("h_wire")
    if not ok:
        ck.broken.append("harness h_wire does not build against /repo: " + out[-600:])
        return ck.finish()
    rng = ck.rng
    thorough = ck.tier == "thorough"
    cases = []
    corpus = os.path.join(V.ROOT, "corpus", "C18.txt")
    if ck.replay:
        rp = json.load(open(ck.replay))
        cases = [rp["failing"]["case"]] if rp["failing"]["kind"] == "wire-ops" else []
    else:
        if os.path.exists(corpus):
            cases += [l.strip() for l in open(corpus) if l.strip() and not l.startswith("#")]
        for i in range(40000 if thorough else 3000):
            s, nf = rand_stream(rng, big=(i % 4 == 0))
            chs = chunkings(rng, s)
            ops = gen_ops(rng, nf, len(s))
            cases.append("%s %s" % (",".join(c.hex() for c in chs) if chs else "-", " ".join(ops)))
    cases = list(dict.fromkeys(cases))
    rc, impl, err = V.run_lines([binp, "ops"], cases)
    model = V.run_model_parallel("wire-run", ["4096 " + c for c in cases])
    ck.evaluations = len(cases)
    nf = 0
    for c, il, ml in zip(cases, impl, model):
        f = c.split()
        stream = b"".join(bytes.fromhex(h) for h in f[0].split(",")) if f[0] != "-" else b""
        ops = f[1:]
        res = il.split()
        got = b""
        bad = None
        seen_frame = False
        for o, r in zip(ops, res):
            d = V.unhex(r[1:]) if r[0] in "DE" else None
            if d is None:
                bad = "operation failed: " + r
                break
            if o[0] == "R" and seen_frame:
                ck.distinct.add(c)
            if o[0] == "B":
                seen_frame = True
                dl = bytes.fromhex(o[1:])
                if r[0] == "D" and not (d.endswith(dl) and dl not in d[:-1]):
                    bad = "ReadBytes result does not end at the first delimiter"
            else:
                n = int(o[1:])
                if r[0] == "D" and not (0 < len(d) <= n):
                    bad = "Read returned %d bytes for a buffer of %d" % (len(d), n)
            if not stream[len(got):].startswith(d):
                bad = "bytes delivered out of order, duplicated or lost: op %s returned %r but the stream continues with %r" % (
                    o, d[:24], stream[len(got):len(got) + 24])
                break
            got += d
        ck.count("ops:%d" % len(ops))
        ck.count("chunks:" + ("1" if f[0].count(",") == 0 else "2-4" if f[0].count(",") < 4 else ">4"))
        if bad:
            nf += 1
            ck.fail("wire-ops", c if len(c) < 3000 else c[:3000], bad, impl=il[:300], model=ml[:300])
        elif il != ml:
            ck.tie_broken("per-operation results differ", c[:300], il[:200], ml[:200])
    for c, il in list(zip(cases, impl))[:: max(1, len(cases) // 5)]:
        ck.sample(dict(case=c[:120], impl=il[:120]))
    # end-to-end: upgraded call, frame and payload in one segment
    e2e = []
    for i in range(60 if thorough else 8):
        payload = bytes(rng.randrange(256) for _ in range(rng.choice([1, 3, 7, 32, 200])))
        rs = rng.choice([1, 3, 16, 4096])
        e2e.append((payload, rs))
    if not ck.replay or json.load(open(ck.replay))["failing"]["kind"] != "wire-ops":
        for mode, frame in (("upgrade-service", b'{"method":"x.y.Up","upgrade":true}'), ("upgrade-client", b'{"parameters":{}}')):
            var = "split" if mode == "upgrade-service" else "gc"
            lines = ["%s %s %d" % (frame.hex(), p.hex(), rs) for p, rs in e2e] + ["%s %s %d %s" % (frame.hex(), p.hex(), rs, var) for p, rs in e2e * 3]
            e2e_all = e2e + e2e * 3
            rc, out, err = V.run_lines([binp, mode], lines, timeout=900)
            for (p, rs), o, l in zip(e2e_all, out, lines):
                ck.evaluations += 1
                ck.count("e2e:" + mode)
                ck.distinct.add(mode + l)
                if o != p.hex():
                    nf += 1
                    ck.fail("wire-" + mode, l, "after the %s frame the raw read did not return the bytes that follow it: got %s, sent %s"
                            % ("request" if mode == "upgrade-service" else "reply", o[:60], p.hex()[:60]), impl=o[:200])
    # the byte stream in the raw phase: large amounts, and both directions in use at once (h_ctx drives ctxio.Conn over real sockets)
    if not ck.replay:
        okc, outc, hctx = V.build_go("h_ctx")
        if not okc:
            ck.broken.append("harness h_ctx does not build against /repo: " + outc[-600:])
        else:
            dl = ["%s duplex cancel %s" % (t, w) for t in ("unix", "tcp") for w in ("bigraw", "rwshare")] * (3 if thorough else 1)
            rc, out, err = V.run_lines([hctx], dl, timeout=900)
            for l, o in zip(dl, out + ["CRASH"] * (len(dl) - len(out))):
                ck.evaluations += 1
                ck.count("raw-phase:" + l.split()[3])
                ck.distinct.add(l)
                if not o.startswith("class=ok "):
                    nf += 1
                    ck.fail("wire-raw-phase", l, "raw reads did not deliver exactly the bytes the peer sent, once and in order "
                            "(20 MiB one way / a read blocked while writes complete): " + o[:200], impl=o[:300])
    ck.extra["failing_inputs_total"] = nf
    small = [(c, m) for c, m in zip(cases, model) if len(c) < 200][:150]
    pairs = []
    for c, m in small:
        f = c.split()
        chs = "[" + ";".join(V.coq_bytes(bytes.fromhex(h)) for h in f[0].split(",")) + "]" if f[0] != "-" else "[]"
        ops = "[" + ";".join(("OpReadBytes %d" % int(o[1:], 16)) if o[0] == "B" else ("OpRead %d" % int(o[1:])) for o in f[1:]) + "]"
        pairs.append("((%s, %s), %s)" % (chs, ops, V.coq_bytes(m.encode())))
    ck.vm_crosscheck("Bytes Wire", pairs, "(fun c e => bytes_eqb (wire_case 4096 (fst c) (snd c)) e)")
    return ck.finish()
