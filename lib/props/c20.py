# C20 — Socket activation picks the right inherited descriptor or none.
import itertools
import json
import vcheck as V
from props import svccommon as C


def spec(pidmode, fds, names, kinds):
    """The statement read directly -> expected result"""
    ks = [] if kinds == "-" else kinds.split(",")

    def atoi(s):
        if s is None:
            return None
        t = s[1:] if s[:1] in "+-" else s
        if not t or not all(c in "0123456789" for c in t):
            return None
        v = int(s)
        return v if -2**63 <= v < 2**63 else None
    if pidmode not in ("match", "plus"):
        return "fallback"
    n = atoi(None if fds == "-" else ("" if fds == "EMPTY" else fds))
    if n is None or n < 1:
        return "fallback"
    if n == 1:
        i = 0
    else:
        if names == "-":
            return "fallback"
        l = ("" if names == "EMPTY" else names).split(":")
        if len(l) != n or "varlink" not in l:
            return "fallback"
        i = l.index("varlink")
    if i < len(ks) and ks[i] in ("s", "S"):
        return "inherited:%d" % i
    return "fallback"


def main(pid, argv):
    ck = V.Check(pid, argv)
    ck.rule = ("the full product {LISTEN_PID matches (also written +pid), differs, unset, garbage} x LISTEN_FDS in {unset, '', foo, -1, 0, 1, 2, 3, +2, 02, 1x, ' 1', "
               "99999999999999999999} x LISTEN_FDNAMES in {unset, '', varlink, wrong arity, varlink first/middle/last/twice/absent, Varlink, 'varlink '} x kinds of the "
               "passed descriptors (listening abstract unix socket, listening filesystem socket whose path is also the address passed to Bind, regular file, pipe, none), x the protocol of the address passed to Bind (unix, or tcp while the inherited sockets are unix), each case a fresh child process started with exactly that environment; the child "
               "binds a Service and reports its listener's address. distinct = distinct cases; non-trivial = LISTEN_PID matches and LISTEN_FDS parses")
    ck.assumptions = ["net.FileListener's verdict on a descriptor is an oracle argument of the model (is_socket); here: listening unix socket vs regular file vs pipe vs closed"]
    ck.check_obligations()
    bins = C.build(ck, ("h_act",))
    if bins is None:
        return ck.finish()
    rng = ck.rng
    pid_modes = ["match", "plus", "differ", "unset", "garbage"]
    fds_vals = ["-", "EMPTY", "foo", "-1", "0", "1", "2", "3", "+2", "02", "1x", "99999999999999999999", "4"]
    names_vals = ["-", "EMPTY", "varlink", "varlink:x", "x:varlink", "x:varlink:y", "x:y:varlink", "varlink:varlink:x", "x:varlink:varlink", "a:b:c", "a:b", "Varlink:x",
                  "varlink:", ":varlink", "x:y:z:varlink", "::varlink", "varlink.socket", "varlink.socket:x", "x:varlink.socket", "varlink.socket:varlink", "x:varlink.socket:varlink", "varlinkx:x"]
    # S = a filesystem socket whose path is also the address given to Bind (s = abstract socket, another address)
    kinds_vals = ["s", "f", "p", "-", "s,s", "s,f", "f,s", "s,s,s", "f,s,s", "s,f,s", "s,s,f", "p,s,f", "s,s,s,s", "S", "s,S", "S,s", "f,S,s"]
    if ck.replay:
        cases = [json.load(open(ck.replay))["failing"]["case"]]
    else:
        full = [" ".join(x) for x in itertools.product(pid_modes, fds_vals, names_vals, kinds_vals)]
        if ck.tier == "thorough":
            cases = full
        else:
            cases = [c for c in full if c.split()[0] == "match" and c.split()[1] in ("1", "2", "3", "02", "+2", "0", "-", "foo")
                     and c.split()[3] in ("s", "f", "s,s", "f,s", "s,f,s", "s,s,s", "-", "S", "s,S", "S,s")]
            cases += rng.sample(full, 400)
            cases = list(dict.fromkeys(cases))
        # the address passed to Bind may name another protocol than the inherited socket: when activation succeeds it is not inspected
        base = list(cases)
        cases += [c + " tcp" for c in base if c.split()[0] in ("match", "plus") and "S" not in c.split()[3]][:: (1 if ck.tier == "thorough" else 3)]
        # a second Bind in the same process after the LISTEN_* variables were removed must fall back to its own address
        cases += [c + " rebind" for c in base if c.split()[0] in ("match", "plus") and c.split()[1] in ("1", "2") and "S" not in c.split()[3]][:: (1 if ck.tier == "thorough" else 2)]
    impl = C.run_sharded([bins["h_act"]], cases, jobs=14)
    model = V.run_model_parallel("act-run", cases)
    ck.evaluations = len(cases)
    nf = 0
    for c, il, ml in zip(cases, impl, model):
        f = c.split()
        ck.count("pid:" + f[0])
        ck.count("result:" + il.split(":")[0])
        if f[0] in ("match", "plus") and f[1] not in ("-", "EMPTY", "foo", "1x"):
            ck.distinct.add(c)
        want = spec(*f[:4])
        if il != want:
            nf += 1
            ck.fail("activation", c, "the service ended up on %s, the statement says %s" % (il, want), impl=il, model=ml)
        elif il != ml:
            ck.tie_broken("listener choice differs from the model", c, il, ml)
    ck.extra["failing_inputs_total"] = nf
    ck.extra["exhaustive"] = ck.tier == "thorough"
    for c, il in list(zip(cases, impl))[:: max(1, len(cases) // 6)]:
        ck.sample(dict(case=c, impl=il))
    return ck.finish()
