# C08 — Generated stubs are a faithful typed binding of the description.
import json
import os
import re
import shutil
import tempfile
import vcheck as V
import idlgen as G
import stubgen as SG
from props import svccommon as C
from props import c07


def go_json(t, v, aliases, tagged):
    """what encoding/json produces for the Go value of (untagged or tagged) type t"""
    k = t[0]
    if k == "N":
        return go_json(aliases[t[1]], v, aliases, True)
    if k == "S":
        out = {}
        for n, ft in t[1]:
            if tagged:
                if ft[0] == "Q" and v[n] is None:
                    continue
                out[n] = go_json(ft, v[n], aliases, True)
            else:
                out[SG.title(n)] = go_json(ft, v[n], aliases, False)
        return out
    if k == "A":
        return [go_json(t[1], x, aliases, tagged) for x in v]
    if k == "D":
        return {kk: go_json(t[1], x, aliases, tagged) for kk, x in v.items()}
    if k == "Q":
        return None if v is None else go_json(t[1], v, aliases, tagged)
    if k == "f":
        return float(v)
    return v


def plan_calls(rng, idl, aliases):
    iface, _, members = idl
    methods = [m for m in members if m[0] == "M" and m[1] != "Unimpl"]
    errors = [m for m in members if m[0] == "X"]
    calls = []
    for m in methods:
        ins, outs = m[3], m[4]
        for _ in range(rng.choice([1, 2])):
            calls.append(dict(method=m[1], flags=0, **{"in": SG.rand_value(rng, ins, aliases)}, outs=[SG.rand_value(rng, outs, aliases)], error=None))
        k = rng.choice([1, 2, 4])
        calls.append(dict(method=m[1], flags=1, **{"in": SG.rand_value(rng, ins, aliases)}, outs=[SG.rand_value(rng, outs, aliases) for _ in range(k + 1)], error=None))
        calls.append(dict(method=m[1], flags=2, **{"in": SG.rand_value(rng, ins, aliases)}, outs=[SG.rand_value(rng, outs, aliases)], error=None))
        if errors:
            e = rng.choice(errors)
            ev = SG.rand_value(rng, e[3], aliases) if e[3] else {}
            calls.append(dict(method=m[1], flags=0, **{"in": SG.rand_value(rng, ins, aliases)}, outs=[], error=(e[1], ev)))
        if ins[1]:
            # parameters the dispatcher cannot decode into the method's input struct: a wrong JSON type, null, none at all
            raws = [rng.choice(["5", "5", "[1,2]", "null", "-", "-"])]
            if all(ft[0] == "Q" for _, ft in ins[1]):
                raws = ["5", "[1,2]", "null", "-"]       # a method whose inputs are all optional still has to refuse what it cannot decode
            for rw in raws:
                calls.append(dict(method="@badparams", target=m[1], raw=rw, flags=0, error=None))
    calls.append(dict(method="Unimpl", flags=0, **{"in": {}}, outs=[{}], error=None))
    # a oneway call that ends in generated code (the default implementation answers MethodNotImplemented): nothing may be written
    calls.append(dict(method="Unimpl", flags=2, **{"in": {}}, outs=[{}], error=None))
    calls.append(dict(method="@unknown", flags=0, error=None))
    rng.shuffle(calls)
    return calls


def expectations(idl, aliases, calls):
    """-> per call: list of expected CALL lines as dicts, and expected handler log"""
    iface, _, members = idl
    methods = {m[1]: m for m in members if m[0] == "M"}
    errors = {m[1]: m for m in members if m[0] == "X"}
    exp, hlog = [], []
    for c in calls:
        mn = c["method"]
        if mn == "@unknown":
            exp.append([dict(sent={"method": iface + ".NoSuchMethod", "parameters": None}, err="MethodNotFound:NoSuchMethod")])
            continue
        if mn == "@badparams":
            exp.append([dict(sent={"method": iface + "." + c["target"], "parameters": {"5": 5, "[1,2]": [1, 2], "null": None, "-": None}[c["raw"]]},
                             err="InvalidParameter:parameters")])
            continue
        m = methods[mn]
        sent = {"method": iface + "." + mn}
        if m[3][1]:
            sent["parameters"] = SG.to_json(m[3], c["in"], aliases)
        if c["flags"] & 1:
            sent["more"] = True
        if c["flags"] & 2:
            sent["oneway"] = True
        if mn == "Unimpl":
            if c["flags"] & 2:
                exp.append([dict(sent=sent, recv=[], err="oneway")])
            else:
                exp.append([dict(sent=sent, err="MethodNotImplemented:%s.Unimpl" % iface)])
            continue
        hlog.append((mn, bool(c["flags"] & 1), bool(c["flags"] & 2), False, [go_json(ft, c["in"][n], aliases, False) for n, ft in m[3][1]]))
        if c["flags"] & 2:
            exp.append([dict(sent=sent, recv=[], err="oneway")])
            continue
        if c["error"] is not None:
            en, ev = c["error"]
            et = errors[en][3]
            params = SG.to_json(et, ev, aliases) if et else {}
            exp.append([dict(sent=sent, recv=[{"error": iface + "." + en, "parameters": params}], err="%s:" % en,
                             errval=[go_json(et, ev, aliases, True) if et else {}])])
            continue
        lines = []
        for j, ov in enumerate(c["outs"]):
            r = {"parameters": SG.to_json(m[4], ov, aliases)} if m[4][1] else {}
            if j < len(c["outs"]) - 1:
                r["continues"] = True
            lines.append(dict(sent=sent if j == 0 else None, recv=[r], err="nil",
                              result=[go_json(ft, ov[n], aliases, False) for n, ft in m[4][1]]))
        exp.append(lines)
    return exp, hlog


def frames(hexs):
    b = bytes.fromhex(hexs)
    parts = b.split(b"\x00")
    if parts[-1] != b"":
        return None
    return [json.loads(p.decode("utf-8")) for p in parts[:-1]]


def main(pid, argv):
    ck = V.Check(pid, argv)
    ck.rule = ("descriptions in the C07 domain (random aliases, methods, errors; nested structs, arrays, maps, optionals, enums, object); for each, the real generator's "
               "output is compiled together with a generated test program: a service implementation behind the generated dispatcher and a client using the generated "
               "Call / Send stubs, with random typed values (int64 extremes, floats, unicode and control-character strings, empty and nested containers, absent and "
               "present optionals, arbitrary JSON for object), single replies, more-sequences, oneway, typed error replies, an unimplemented method, an unknown method "
               "and undecodable parameters; the frames on the wire are recorded. distinct = distinct (description, call); non-trivial = call with at least one parameter")
    ck.assumptions = ["what the generated Go code does is Go semantics: connected to the model by execution only",
                      "JSON-equality is judged with numbers compared numerically (Go's float formatting is not modelled)"]
    ck.check_obligations()
    ok, out, genbin = c07.build_generator()
    if not ok:
        ck.broken.append("the generator does not build: " + out[-400:])
        return ck.finish(level='translation_validation')
    rng = ck.rng
    n = 120 if ck.tier == "thorough" else 10
    d = tempfile.mkdtemp(prefix="vstub")
    try:
        mod = os.path.join(d, "mod")
        os.makedirs(mod)
        open(os.path.join(mod, "go.mod"), "w").write("module scratch\n\ngo 1.23\n\nrequire github.com/varlink/go v0.0.0\n\nreplace github.com/varlink/go => /repo\n")
        open(os.path.join(mod, "go.sum"), "w").write("")
        cases = []
        for i in range(n):
            idl, aliases = SG.c08_idl(rng)
            text = G.render(idl, rng, "lines", final_comment=False)
            gres = c07.run_generator(genbin, os.path.join(d, "gen%d" % i), [text])[0] if os.makedirs(os.path.join(d, "gen%d" % i)) is None else None
            if gres["rc"] != 0 or gres["src"] is None:
                ck.fail("stub-generate", V.hexs(text), "the generator failed on a description of the domain: " + gres["out"][:200], extra=dict(text=text.decode()[:500]))
                continue
            pkgname = gres["file"][:-3]
            pdir = os.path.join(mod, "p%d" % i, pkgname)
            os.makedirs(pdir)
            open(os.path.join(pdir, pkgname + ".go"), "wb").write(gres["src"])
            calls = plan_calls(rng, idl, aliases)
            prog = SG.program(idl, aliases, "p%d/%s" % (i, pkgname), rng, calls)
            mdir = os.path.join(mod, "m%d" % i)
            os.makedirs(mdir)
            open(os.path.join(mdir, "main.go"), "w").write(prog)
            cases.append((i, idl, aliases, calls, text))
        ov = os.path.join(V.HARNESS, "overlay", "overlay.json")
        rc, out = V.sh("cd %s && go build -tags verif -overlay %s -o bin/ ./m... 2>&1" % (mod, ov), env=V.GOENV, timeout=3000)
        berr = {}
        for line in out.split("\n"):
            m = re.search(r"\b[mp](\d+)/", line)
            if m and ".go:" in line:
                berr.setdefault(int(m.group(1)), []).append(line.strip())
        for i, idl, aliases, calls, text in cases:
            if i in berr:
                ck.fail("stub-compile", V.hexs(text), "generated stubs / test program do not compile: " + "; ".join(berr[i][:3])[:500], extra=dict(text=text.decode()[:500]))
                continue
            rc, out = V.sh([os.path.join(mod, "bin", "m%d" % i)], timeout=120)
            exp, ehlog = expectations(idl, aliases, calls)
            got_calls, got_h = {}, []
            for line in out.split("\n"):
                f = line.split("\t")
                if f[0] == "CALL":
                    got_calls.setdefault(int(f[1]), []).append(f[2:])
                elif f[0] == "HANDLER":
                    got_h.append(f[1:])
            bad = None
            if rc != 0 or "X " in out[:3]:
                bad = "test program failed: " + out[-300:]
            for ci, (c, e) in enumerate(zip(calls, exp)):
                if bad:
                    break
                ck.evaluations += 1
                ck.count("call:" + (c["method"] if c["method"].startswith("@") else ("error" if c.get("error") else "flags%d" % c["flags"])))
                if c.get("in"):
                    ck.distinct.add((i, ci))
                g = got_calls.get(ci, [])
                if len(g) != len(e):
                    bad = "call %d (%s): %d results, expected %d: %s" % (ci, c["method"], len(g), len(e), g[:2])
                    break
                # replies of a more-sequence may reach the client's buffer together: compare the frames of the whole call
                allrecv, bad_hex = [], False
                for gl in g:
                    fr = frames(gl[1]) if gl[1] else []
                    if fr is None:
                        bad_hex = True
                    else:
                        allrecv += fr
                wantrecv = [r for el in e for r in el.get("recv", [])]
                if any("recv" in el for el in e) and (bad_hex or allrecv != wantrecv):
                    bad = "call %d (%s): the replies on the wire are %s, expected %s" % (ci, c["method"], allrecv, wantrecv)
                    break
                for gl, el in zip(g, e):
                    sent = frames(gl[0]) if gl[0] else []
                    if el.get("sent") is not None:
                        want = el["sent"]
                        if sent is None or len(sent) != 1 or sent[0] != want:
                            bad = "call %d (%s): the call on the wire is %s, expected %s" % (ci, c["method"], sent, want)
                            break
                    elif sent:
                        bad = "call %d: unexpected bytes sent: %s" % (ci, sent)
                        break
                    errtok = gl[3] if len(gl) > 3 else "?"
                    if el["err"].endswith(":") and "errval" in el:
                        if not errtok.startswith(el["err"]) or json.loads(errtok[len(el["err"]):]) != el["errval"]:
                            bad = "call %d: the client got error %s, expected %s%s" % (ci, errtok[:200], el["err"], el["errval"])
                            break
                    elif errtok != el["err"]:
                        bad = "call %d (%s): the client got %s, expected %s" % (ci, c["method"], errtok[:200], el["err"])
                        break
                    if "result" in el and json.loads(gl[2]) != el["result"]:
                        bad = "call %d (%s): the client returned %s, expected %s" % (ci, c["method"], gl[2][:300], el["result"])
                        break
                    if "result" in el and len(gl) > 4:
                        cont = int(gl[4]) & 4 != 0
                        if cont != bool(el["recv"][0].get("continues")):
                            bad = "call %d: continues flag %s" % (ci, cont)
                            break
            # model tie: each frame the generated code put on the wire decodes at its declared type and re-encodes to the same bytes
            iface_name, _, members = idl
            mt = {m[1]: m for m in members if m[0] == "M"}
            et = {m[1]: m for m in members if m[0] == "X"}
            al = ";".join("%s=%s" % (k.encode().hex(), G.dump_ty(v)) for k, v in aliases.items()) or "-"
            tlines, tmeta = [], []
            for ci, c in enumerate(calls):
                if c["method"].startswith("@") or c["method"] == "Unimpl":
                    continue
                m = mt[c["method"]]
                for gl in got_calls.get(ci, []):
                    if gl[0]:
                        for fr in bytes.fromhex(gl[0]).split(b"\x00")[:-1]:
                            tlines.append("%s %s call %s" % (G.dump_ty(m[3]), al, fr.hex()))
                            tmeta.append((ci, "call"))
                    if gl[1]:
                        for fr in bytes.fromhex(gl[1]).split(b"\x00")[:-1]:
                            if c.get("error"):
                                e = et[c["error"][0]]
                                tlines.append("%s %s reply %s" % (G.dump_ty(e[3] if e[3] else ("S", [])), al, fr.hex()))
                            else:
                                tlines.append("%s %s reply %s" % (G.dump_ty(m[4]), al, fr.hex()))
                            tmeta.append((ci, "reply"))
            if tlines and not bad:
                tres = V.run_model("typed-check", tlines)
                for (ci, kind), tl, tr in zip(tmeta, tlines, tres):
                    ck.count("typed-frames")
                    if tr != "ok":
                        ck.tie_broken("a %s frame is not the typed mapping of its declared type (call %d): %s" % (kind, ci, tr[:200]), tl[:600], "frame", tr[:100])
                        break
            if not bad:
                gh = []
                for f in got_h:
                    gh.append((f[0], f[1] == "true", f[2] == "true", f[3] == "true", json.loads(f[4])))
                if sorted(map(repr, gh)) != sorted(map(repr, ehlog)) and [x[0] for x in gh] == [x[0] for x in ehlog]:
                    for a, b_ in zip(gh, ehlog):
                        if a != b_:
                            bad = "the service implementation received %s, the client passed %s" % (a, b_)
                            break
                elif [x[0] for x in gh] != [x[0] for x in ehlog]:
                    bad = "handlers invoked: %s, expected %s" % ([x[0] for x in gh], [x[0] for x in ehlog])
            if bad:
                ck.fail("stub-binding", V.hexs(text), bad, impl=out[-1200:], extra=dict(text=text.decode()[:600]))
    finally:
        shutil.rmtree(d, ignore_errors=True)
    ck.extra["programs"] = n
    ck.sample(dict(description=cases[0][4].decode()[:300], calls=[c["method"] for c in cases[0][3]][:12]) if cases else {})
    ck.extra.setdefault('disagreements_checked', getattr(ck, 'fail_counts', {}).get('stub-binding', 0))
    return ck.finish(level='translation_validation')
