# C05 — IDL parser: grammar-conformant descriptions parse to the tree they denote.
import itertools
import json
import vcheck as V
import idlgen as G
from props import idlcommon as C


def gen(ck):
    """-> list of (kind, text, expected_dump, with_docs)"""
    rng = ck.rng
    thorough = ck.tier == "thorough"
    out = []
    depth = 2 if thorough else 1
    types = G.enum_types(depth)
    if not thorough:
        types += rng.sample(G.enum_types(2), 150)
    for t in types:
        for d in G.positions(t):
            exp = G.dump_idl(d, docs=False)
            out.append(("exhaustive/min", G.render(d, rng, "min"), exp, False))
            out.append(("exhaustive/lines", G.render(d, rng, "lines"), exp, False))
            for _ in range(2 if thorough else 1):
                out.append(("exhaustive/rand", G.render(d, rng, "rand"), exp, False))
    for _ in range(40000 if thorough else 1500):
        d = G.rand_idl(rng, depth=rng.choice([1, 2, 3, 4]))
        out.append(("random/rand", G.render(d, rng, "rand"), G.dump_idl(d, docs=False), False))
    for _ in range(20000 if thorough else 1000):
        d = G.rand_idl(rng, depth=rng.choice([1, 2, 3]))
        txt, d2 = G.render_docs(d, rng)
        out.append(("random/docblocks", txt, G.dump_idl(d2, docs=True), True))
    for nm in G.IFACE_NAMES + ["a." + "b" * 253, "a" * 200 + ".b" + "-c" * 26, "Z.x9", "a.b.c.d.e.f-g-h.i"]:
        d = (nm, "", [("M", "M", "", ("S", []), ("S", []))])
        if len(nm) <= 255:
            out.append(("names", G.render(d, rng, "lines"), G.dump_idl(d, docs=False), False))
    return out


def name_cases(ck):
    """Interface-name matcher vs Go's regexp: every string over a small alphabet up to a length bound."""
    L = 7 if ck.tier == "thorough" else 5
    al = [b"a", b"Z", b"0", b"x", b"n", b"-", b"."]
    out = []
    for n in range(1, L + 1):
        for seq in itertools.product(al, repeat=n):
            out.append(b"interface " + b"".join(seq) + b"\nmethod M()->()")
    for body in (b"a." + b"b" * 253, b"a." + b"b" * 254, b"a" * 255 + b".b", b"a." + b"b-" * 126 + b"c", b"a." + b"b-" * 127 + b"c",
                 b"xn--" + b"a" * 249 + b".b", b"xn--" + b"a" * 250 + b".b"):
        out.append(b"interface " + body + b"\nmethod M()->()")
    return out


def main(pid, argv):
    ck = V.Check(pid, argv)
    ck.rule = ("cases: every type of the bounded-exhaustive set (nesting depth bound, small alphabet) at every position (alias body, method input, "
               "method output, error parameter, nested) x {minimal, one-per-line, random} layouts; random trees x random layouts (blanks, tabs, CR, CRLF, "
               "comments incl. empty ones, comments that look like members, comment at end of input); random trees with doc blocks; interface-name "
               "boundary cases; plus all strings over {a,Z,0,x,n,-,.} up to a length bound as interface names (matcher vs Go regexp). "
               "distinct = distinct texts; non-trivial = the expected tree has at least one member")
    ck.assumptions = ["layout independence is stated for the tree minus documentation strings; documentation is pinned by the doc-block cases "
                      "(block directly above the member, preceded by a line that does not end in a comment, only blanks between keyword and name)"]
    ck.check_obligations()
    binp = C.build(ck)
    if binp is None:
        return ck.finish()
    if ck.replay:
        rp = json.load(open(ck.replay))
        f = rp["failing"]
        cases = [("replay", V.unhex(f["case"]), f["extra"].get("expected"), f["extra"].get("with_docs", False))]
        names = []
    else:
        cases = [("corpus", x, None, False) for x in C.corpus("C05")] + gen(ck)
        names = name_cases(ck)
    data = [c[1] for c in cases] + names
    impl = C.run_impl(binp, data)
    model = C.run_model(data)
    ck.evaluations = len(data)
    nf = 0
    for (k, x, exp, wd), il, ml in zip(cases, impl, model):
        if il == "SKIPPED":
            continue
        ck.count("kind:" + k)
        ck.count("impl:" + C.cls(il))
        ck.distinct.add(x)
        if exp is not None:
            got = il if wd else G.erase_docs(il)
            if got != exp:
                nf += 1
                ck.fail("idl-wrong-tree", V.hexs(x), "valid description rejected or parsed to a different tree",
                            impl=il[:600], model=ml[:600], extra=dict(expected=exp, with_docs=wd, generator=k, text=repr(x[:400])))
                continue
        if il != ml:
            ck.tie_broken("parse result differs (docs included)", V.hexs(x)[:400], il[:300], ml[:300])
    nm_bad = 0
    for x, il, ml in zip(names, impl[len(cases):], model[len(cases):]):
        if il == "SKIPPED":
            continue
        ck.count("kind:interface-name")
        ck.count("name:" + C.cls(il))
        if il != ml:
            nm_bad += 1
            if nm_bad <= 3:
                ck.tie_broken("interface-name matcher differs from Go's regexp", V.hexs(x), il[:100], ml[:100])
    ck.extra["failing_inputs_total"] = nf
    step = max(1, len(cases) // 6)
    for (k, x, exp, wd), il in list(zip(cases, impl))[::step]:
        ck.sample(dict(generator=k, input=repr(x[:100]), impl=il[:100]))
    C.crosscheck(ck, data[:len(cases)], model[:len(cases)])
    return ck.finish()
