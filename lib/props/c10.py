# C10 — Service survives arbitrary and aborted client byte streams.
import json
import vcheck as V
import svcgen as S
import jsongen as J
from props import svccommon as C
from props.c04 import BAD_FRAMES


def strict_json(b):
    """-> python value, or Ellipsis when b is not syntactically valid JSON.  Validity is judged byte-wise
    (bytes >= 0x80 inside strings are not required to be UTF-8, as for Go's json.Valid)."""
    def bad(x):
        raise ValueError(x)
    try:
        return json.loads(b.decode("latin-1"), parse_constant=bad)
    except RecursionError:
        # deeply nested values (the generators go to depth 2000, Go's decoder accepts 10000): retry with room to recurse
        import sys
        old = sys.getrecursionlimit()
        sys.setrecursionlimit(max(old, 60000))
        try:
            return json.loads(b.decode("latin-1"), parse_constant=bad)
        except (UnicodeDecodeError, ValueError, RecursionError):
            return Ellipsis
        finally:
            sys.setrecursionlimit(old)
    except (UnicodeDecodeError, ValueError):
        return Ellipsis


def base_stream(rng, meta):
    """a byte stream: valid calls, mutated frames, wrong-shape JSON, random bytes"""
    known = list(meta["scripts"].keys()) or [b"a.b.M"]
    data = b""
    for _ in range(rng.choice([1, 2, 3, 4, 6])):
        r = rng.random()
        if r < 0.55:
            fl = rng.random()
            fr = S.call_bytes(rng, rng.choice(known + [b"org.varlink.service.GetInfo", b"zz", b"no.such.M"]),
                              rng.choice([None, b"{}", J.text_of(rng, None, 1)]), fl < 0.2, 0.2 <= fl < 0.4, 0.4 <= fl < 0.5)
        elif r < 0.575:
            # a complete well-formed call longer than the read buffer (4096) / than a socket buffer
            fr = S.call_bytes(rng, rng.choice(known + [b"org.varlink.service.GetInfo"]), b'{"pad":"' + b"p" * rng.choice([4000, 4090, 4200, 9000, 70000]) + b'"}', False, False, False)
        elif r < 0.62:
            # a complete well-formed value followed by more bytes inside the same frame: not valid JSON as a whole
            fr = S.call_bytes(rng, rng.choice(known + [b"org.varlink.service.GetInfo"]), rng.choice([None, b"{}"]), False, False, False) + \
                rng.choice([b" junk", b"]", b"}", b",", b"{}", b" null", b"\n{\"method\":\"org.varlink.service.GetInfo\"}", b"\x01", b" \xff", b"0"])
            if rng.random() < 0.2:
                fr = rng.choice([b"null null", b"null,", b"{}{}", b"{} x"])
        elif r < 0.7:
            fr = J.mutate(rng, S.call_bytes(rng, rng.choice(known), b"{}", False, False, False), rng.choice([1, 2]))
        elif r < 0.85:
            fr = rng.choice(BAD_FRAMES + [b"null", b" null ", b"{}", b'{"method":null}', b'{"parameters":{}}', b'{"METHOD":"' + rng.choice(known) + b'"}'])
        elif r < 0.95:
            fr = J.frame_like(rng, J.CALL_KEYS, b"method", known + [b"", b"x"])
        else:
            fr = bytes(rng.randrange(256) for _ in range(rng.choice([1, 3, 9, 30])))
        data += fr + b"\x00"
    if rng.random() < 0.3:
        data += rng.choice([b'{"method":"', b"{", S.call_bytes(rng, rng.choice(known), None, False, False, False)])   # no final NUL
    return data


def main(pid, argv):
    ck = V.Check(pid, argv)
    ck.rule = ("cases: byte streams (valid call sequences incl. frames of 4 KiB - 70 KiB, mutated frames, wrong-shape JSON, random bytes, unterminated tail) each cut at every byte offset "
               "(all offsets for streams <= 300 bytes, sampled beyond), the client then half-closing (exact comparison with the model) or aborting (full close, "
               "log must be a prefix of the model's), 7 such connections plus one well-behaved probe connection per service run. distinct = distinct (stream, cut, "
               "mode); non-trivial = the prefix contains at least one complete frame")
    ck.assumptions = ["fd / goroutine release is observed through the service's connection counter reaching 0 and DoListen returning after Shutdown (3 s bound)",
                      "an aborting client may make later writes fail; the order and content of dispatches before that is compared"]
    ck.check_obligations()
    ck.lock_facts_obligation()
    bins = C.build(ck)
    if bins is None:
        return ck.finish()
    rng = ck.rng
    thorough = ck.tier == "thorough"
    lines, metas = [], []
    if ck.replay:
        lines, metas = [json.load(open(ck.replay))["failing"]["case"]], [None]
    else:
        for _ in range(200 if thorough else 25):
            secs, meta = C.gen_service(rng, simple_scripts=(rng.random() < 0.5))
            known = list(meta["scripts"].keys())
            data = base_stream(rng, meta)
            fixed_no = len([m for m in metas]) // 7
            if fixed_no % 3 == 1:
                # every few services: a complete value followed by more bytes inside one frame, between two ordinary calls
                small = lambda: S.call_bytes(rng, rng.choice(known + [b"org.varlink.service.GetInfo"]), None, False, False, False) + b"\x00"
                data = small() + S.call_bytes(rng, rng.choice(known + [b"org.varlink.service.GetInfo"]), rng.choice([None, b"{}"]), False, False, False) + \
                    rng.choice([b" junk", b"]", b"}", b",", b"{}", b" null", b"0"]) + b"\x00" + small()
            if len(lines) % 7 == 0 or not lines:
                # every few services: a stream that certainly contains a call longer than the read buffer, between two ordinary ones
                small = lambda: S.call_bytes(rng, rng.choice(known + [b"org.varlink.service.GetInfo"]), None, False, False, False) + b"\x00"
                bigc = S.call_bytes(rng, rng.choice(known + [b"org.varlink.service.GetInfo"]), b'{"pad":"' + b"p" * rng.choice([4090, 4200, 9000, 70000]) + b'"}',
                                    False, False, False) + b"\x00"
                data = small() + bigc + small()
            cuts = list(range(len(data) + 1)) if len(data) <= 300 else sorted(rng.sample(range(len(data) + 1), 300))
            if len(data) > 300:
                # always: the whole stream, and the stream up to the end of each frame (and one byte less)
                ends = [i + 1 for i, ch in enumerate(data) if ch == 0]
                cuts = sorted(set(cuts[:260]) | {len(data)} | set(ends[:20]) | {e - 1 for e in ends[:20]})
            probe_calls = [C.Call(b"org.varlink.service.GetInfo", None), C.Call(rng.choice(known), b"{}") if known else C.Call(b"zz", None)]
            probe = b"".join(S.call_bytes(rng, c.method, c.params, False, False, False, canonical=True) + b"\x00" for c in probe_calls)
            for i in range(0, len(cuts), 7):
                conns = []
                csecs = []
                for k in cuts[i:i + 7]:
                    mode = rng.choice(["half", "half", "abort"])
                    fk = data[:k].split(b"\x00")[:-1]
                    if mode == "half" and any(strict_json(x) is Ellipsis for x in fk) and rng.random() < 0.5:
                        # the stream contains a frame that does not decode: the service hangs up by itself; this client then keeps its own
                        # end open (no close, no half-close) until the service has been shut down - its resources must be released anyway
                        mode = "keep"
                    conns.append((mode, data[:k]))
                    csecs.append("conn %s %s" % (mode, ",".join(c.hex() for c in S.segment(rng, data[:k])) or "-"))
                csecs.insert(rng.randrange(len(csecs) + 1), "PROBE")
                pi = csecs.index("PROBE")
                csecs[pi] = "conn half %s" % probe.hex()
                conns.insert(pi, ("probe", probe))
                lines.append(" | ".join(secs + csecs))
                metas.append(dict(meta, conns=conns, probe_index=pi, probe_calls=probe_calls))
    impl = C.run_impl(bins["h_svc"], lines)
    model = C.run_model(lines)
    # which frames of an aborted stream are calls that reach a handler (decoded by the model's call decoder, routed by the statement's rule)
    abort_frames = sorted({fr for meta in metas if meta for mode, data in meta["conns"] if mode != "probe" for fr in data.split(b"\x00")[:-1]})
    decoded = dict(zip(abort_frames, V.run_model("call-decode", [V.hexs(fr) for fr in abort_frames]))) if abort_frames else {}

    def handler_calls(meta, frames):
        out = []
        for fr in frames:
            d = decoded.get(fr, "ERR")
            if d == "ERR":
                break
            f = d.split(" ")
            method = b"" if f[0] == "S-" else bytes.fromhex(f[0][1:])
            rt = S.route_py(meta["registry"], method)
            if rt[0] == "dispatch":
                out.append("H%s.%s %s %s" % (rt[1].hex(), rt[2].hex(), f[1], "".join(f[2:5])))
        return out
    def builtin_replies(meta, frames):
        """number of replies the statement demands for a stream none of whose calls reaches a handler: one per call that is not oneway
        (GetInfo, GetInterfaceDescription, MethodNotFound, InterfaceNotFound, InvalidParameter); None if a handler is involved"""
        k = 0
        for fr in frames:
            d = decoded.get(fr, "ERR")
            if d == "ERR":
                break
            f = d.split(" ")
            method = b"" if f[0] == "S-" else bytes.fromhex(f[0][1:])
            if S.route_py(meta["registry"], method)[0] == "dispatch":
                return None
            if f[3] != "T":
                k += 1
        return k
    nf = 0
    for line, meta, il, ml in zip(lines, metas, impl, model):
        iconns, isvc = C.split_result(il)
        mconns, _ = C.split_result(ml)
        bad = None
        if iconns is None:
            bad = "service run failed (crash or hang): " + il[:300]
        elif isvc.get("released") != "1" or isvc.get("returned") != "1" or isvc.get("err") != "nil":
            bad = "connections were not released / the service could not shut down: " + str(isvc)
        if bad is None and meta is not None:
            for ci, (mode, data) in enumerate(meta["conns"]):
                ck.evaluations += 1
                ck.count("mode:" + mode)
                if b"\x00" in data:
                    ck.distinct.add((data, mode))
                out, log, ovl = C.conn_fields(iconns[ci])
                mout, mlog, _ = C.conn_fields(mconns[ci])
                if ovl != "0":
                    bad = "connection %d: overlapping dispatch" % ci
                    break
                if mode == "probe":
                    b2 = C.check_conn(meta, meta["probe_calls"], iconns[ci], ci)
                    if b2:
                        bad = "the well-behaved connection was disturbed: " + b2
                        break
                    continue
                # statement, read directly: nothing is dispatched beyond the complete frames, and a frame that is not valid JSON ends the connection
                frames = data.split(b"\x00")[:-1]
                n_ok = 0
                for fr in frames:
                    if strict_json(fr) is Ellipsis:
                        break
                    n_ok += 1
                n_replies = out.count(b"\x00") if out else 0
                if len(log) > n_ok:
                    bad = "connection %d: %d calls dispatched but only %d leading frames are complete valid JSON" % (ci, len(log), n_ok)
                    break
                if mode in ("half", "keep"):
                    # statement, read directly: every complete well-formed call is dispatched, unless a handler ended the connection before
                    strip = lambda e: " ".join(e.split(" ")[:3])
                    want = handler_calls(meta, frames[:n_ok])
                    if not any(e.endswith("ret1") for e in log) and [strip(e) for e in log] != want and out is not None and not out.startswith(b"TIMEOUT"):
                        if [strip(e) for e in log] == want[:len(log)] and len(log) < len(want):
                            bad = "connection %d: the complete well-formed call %s was never dispatched (%d of %d handler calls ran)" % (ci, want[len(log)][:80], len(log), len(want))
                            break
                    kb = builtin_replies(meta, frames[:n_ok])
                    if kb is not None and out is not None and n_replies != kb:
                        bad = "connection %d: %d complete well-formed calls (none of them oneway, none reaching a handler) but %d replies" % (ci, kb, n_replies)
                        break
                    if iconns[ci] != mconns[ci]:
                        ck.tie_broken("connection bytes / dispatch log differ from the model", line[:1200] + " conn=%d" % ci, iconns[ci][:400], mconns[ci][:400])
                else:
                    # the client may vanish before, between or after the replies: which replies succeed (and so which branch a handler takes,
                    # and whether it ends the connection) is not determined; what IS determined is that the handlers that ran were called,
                    # in order and with the right arguments, for a prefix of the stream's calls
                    strip = lambda e: " ".join(e.split(" ")[:3])
                    want = handler_calls(meta, frames[:n_ok])
                    if [strip(e) for e in log] != want[:len(log)]:
                        bad = "connection %d (aborted): dispatched calls are not a prefix of the calls in the stream: %s vs %s" % (ci, log[:4], want[:4])
                        break
        elif meta is None:
            ck.evaluations += 1
        if bad:
            nf += 1
            ck.fail("svc-survive", line, bad, impl=il[:1500], model=ml[:1500])
    # a connection must not be disturbed by what another one is doing: two handlers that wait for each other (the second connection
    # is opened while the first handler runs) can only finish if the service really serves them side by side
    if not ck.replay or json.load(open(ck.replay))["failing"]["kind"] == "svc-side-by-side":
        mc = [(json.load(open(ck.replay))["failing"]["case"], None)] if ck.replay else [C.meet_case(rng) for _ in range(40 if thorough else 5)]
        if not ck.replay:
            mc += [C.fresh_methods_case(rng) for _ in range(12 if thorough else 3)]
        mi_ = C.run_impl(bins["h_svc"], [m[0] for m in mc], jobs=2)
        mm_ = C.run_model([m[0] for m in mc])
        for (line, meta), il, ml in zip(mc, mi_, mm_):
            ck.evaluations += 1
            ck.count("mode:side-by-side")
            ck.distinct.add(line)
            iconns, isvc = C.split_result(il)
            bad = None
            if iconns is None:
                bad = "service run failed (crash or hang): " + il[:300]
            elif meta is not None:
                for ci in range(len(iconns)):
                    bad = bad or C.check_conn(meta, meta["conns"][ci][0], iconns[ci], ci)
            if bad:
                nf += 1
                ck.fail("svc-side-by-side", line, "a connection was held up by another connection's running handler: " + bad[:400], impl=il[:600], model=ml[:600])
            elif iconns != C.split_result(ml)[0]:
                ck.tie_broken("side-by-side connections differ from the model", line[:800], il[:400], ml[:400])
    ck.extra["failing_inputs_total"] = nf
    ck.extra["service_runs"] = len(lines)
    for line, il in list(zip(lines, impl))[:: max(1, len(lines) // 4)]:
        ck.sample(dict(case=line[:300], impl=il[:300]))
    # decoding cross-check inside Coq: call frames of this run, model answers re-evaluated by vm_compute
    frames = []
    for meta in metas[:40]:
        if meta:
            for mode, data in meta["conns"][:3]:
                frames += [f for f in data.split(b"\x00") if len(f) < 120]
    frames = list(dict.fromkeys(frames))[:150]
    if frames:
        outs = V.run_model("call-decode", [V.hexs(f) for f in frames])
        pairs = ["(%s, %s)" % (V.coq_bytes(f), V.coq_bytes(o.encode())) for f, o in zip(frames, outs)]
        ck.vm_crosscheck("Bytes Json JsonDump Service ServiceDump", pairs, "(fun f e => bytes_eqb (call_case f) e)")
    return ck.finish()
