# C04 — Method routing and the standard error replies.
import json
import vcheck as V
import svcgen as S
import jsongen as J
from props import svccommon as C


def rand_method(rng, ifaces):
    base = rng.choice(ifaces * 5 + S.IFACE_POOL + [S.SVC] * 4)
    m = rng.choice(S.METHODS + [b"GetInfo", b"GetInterfaceDescription"])
    forms = [base + b"." + m] * 6 + [base, base + b".", b"." + base + b"." + m, base.replace(b".", b"..", 1) + b"." + m, base + m, base + b"x." + m,
                                     base[:-1] + b"." + m, m, b"", b".", b"..", base + b"." + m + b"." + m, base.upper() + b"." + m,
                                     "ü".encode() + base + b"." + m, base + b"." + m + b" ", b" " + base + b"." + m, base + b"\x00." + m]
    return rng.choice(forms)


BAD_FRAMES = [b"[]", b"5", b'"x"', b'{"method":5}', b'{"method":["a.b.M"]}', b'{"more":1,"method":"a.b.M"}', b"{", b"", b'{"method":"a.b.M"}}',
              b'{"method":{"x":1}}', b"true", b'{"method":"a.b.M","oneway":"yes"}', b"\xff", b'{"method" "a.b.M"}']


def gen_case(rng):
    secs, meta = C.gen_service(rng, n_if=rng.choice([0, 1, 2, 3, 4, 6]), simple_scripts=True)
    calls, data = [], b""
    for _ in range(rng.choice([5, 10, 20, 30])):
        method = rand_method(rng, meta["registry"])
        oneway = rng.random() < 0.1
        more = (not oneway) and rng.random() < 0.2
        if method.endswith(b"GetInterfaceDescription"):
            name = rng.choice(list(meta["descrs"].keys()) + [b"nope", b""])
            params = rng.choice([None, b"null", b"[]", b'{"interface":5}', b"{}", json.dumps({"interface": name.decode("utf-8", "replace")}).encode()])
        else:
            params = rng.choice([None, b"{}", J.text_of(rng, None, 1)])
        if rng.random() < 0.12:
            # frames that decode but carry no (string) method: answered like a call without method, never dispatched
            fr = rng.choice([b"{}", b"null", b'{"method":null}', b'{"parameters":{"a":1}}', b'{"more":true}', b'{"method":""}', b" { } "])
            calls.append(C.Call(b"", None, more=(fr == b'{"more":true}')))
            data += fr + b"\x00"
            continue
        calls.append(C.Call(method, params, more, oneway, False))
        data += S.call_bytes(rng, method, params, more, oneway, False) + b"\x00"
    if rng.random() < 0.4:
        bf = rng.choice(BAD_FRAMES)
        calls.append(C.Call(b"", None, bad=True))
        data += bf + b"\x00"
        # whatever follows a frame that does not decode must be ignored
        m = rng.choice(list(meta["scripts"].keys()) or [b"a.b.M"])
        calls.append(C.Call(m, None))
        data += S.call_bytes(rng, m, None, False, False, False) + b"\x00"
    secs.append("conn half %s" % ",".join(c.hex() for c in S.segment(rng, data)))
    meta["conns"] = [(calls, data)]
    return " | ".join(secs), meta


def main(pid, argv):
    ck = V.Check(pid, argv)
    ck.rule = ("cases: services with 0-6 registered interfaces drawn from a pool of names that are prefixes/suffixes of each other x 5-30 calls per connection "
               "with method strings from a dot-placement grammar (missing/leading/trailing/double dots, near-misses of registered names, case changes, unicode, NUL, "
               "the reserved org.varlink.service namespace) plus frames that are not call-shaped; every registered method replies with its own name, so a reply "
               "identifies the dispatcher that ran; plus histories on one Service object in which the same method strings are called before and after "
               "registrations, listen and shutdown (routing must follow the registry as it is at the call). distinct = distinct case lines; non-trivial = case contains a dispatched call and an error reply")
    ck.assumptions = ["method strings that are not valid UTF-8 are compared with the model only (Go replaces invalid bytes by U+FFFD before routing)"]
    ck.check_obligations()
    bins = C.build(ck, ("h_svc", "h_reg"))
    if bins is None:
        return ck.finish()
    rng = ck.rng
    if ck.replay:
        rp0 = json.load(open(ck.replay))["failing"]
        lines, metas = ([], []) if rp0["kind"] == "reg-routing" else ([rp0["case"]], [None])
    else:
        cs = [gen_case(rng) for _ in range(4000 if ck.tier == "thorough" else 400)]
        lines, metas = [c[0] for c in cs], [c[1] for c in cs]
    impl = C.run_impl(bins["h_svc"], lines)
    model = C.run_model(lines)
    ck.evaluations = len(lines)
    nf = 0
    for line, meta, il, ml in zip(lines, metas, impl, model):
        iconns, isvc = C.split_result(il)
        mconns, _ = C.split_result(ml)
        bad = None
        if iconns is None:
            bad = "service run failed: " + il[:200]
        elif isvc.get("released") != "1" or isvc.get("returned") != "1":
            bad = "service did not drain / return after Shutdown: " + str(isvc)
        elif meta is not None:
            calls, _ = meta["conns"][0]
            ck.count("calls", len(calls))
            for c in calls:
                if not c.bad:
                    ck.count("route:" + S.route_py(meta["registry"], c.method)[0])
            if all(C.utf8(c.method) for c in calls):
                bad = C.check_conn(meta, calls, iconns[0], 0)
                if "ret0" in iconns[0] and b"error".hex() in iconns[0]:
                    ck.distinct.add(line)
        if bad:
            nf += 1
            ck.fail("svc-routing", line, bad, impl=il[:1500], model=ml[:1500])
            continue
        if iconns != mconns:
            ck.tie_broken("per-connection bytes / dispatch log differ", line[:1500], il[:600], ml[:600])
    # routing against a registry that changes: the same method strings before and after registrations / listen / shutdown
    from props import c13
    if ck.replay:
        rp = json.load(open(ck.replay))["failing"]
        hs = [(rp["case"], None)] if rp["kind"] == "reg-routing" else []
    else:
        hs = [c13.gen_history(rng, p_call=0.45) for _ in range(3000 if ck.tier == "thorough" else 300)]
    hl = [h[0] for h in hs]
    himpl = C.run_sharded([bins["h_reg"]], hl) if hl else []
    hmodel = V.run_model_parallel("reg-run", hl) if hl else []
    for (line, hmeta), il, ml in zip(hs, himpl, hmodel):
        ck.evaluations += 1
        bad = None
        if il.startswith(("PANIC", "CRASH", "HANG")):
            bad = il[:300]
        elif hmeta is not None:
            results = il.split(" ; ")
            bad = c13.spec(hmeta[0], hmeta[1], results) if len(results) == len(hmeta[1]) else "history has %d operations, %d results" % (len(hmeta[1]), len(results))
            ck.count("registry-history-calls", sum(1 for o in hmeta[1] if o[0] == "call"))
            ck.distinct.add(line)
        if bad:
            nf += 1
            ck.fail("reg-routing", line, bad, impl=il[:1500], model=ml[:1500])
        elif il != ml:
            ck.tie_broken("registry-history results differ from the model", line[:1200], il[:800], ml[:800])
    ck.extra["failing_inputs_total"] = nf
    for line, il in list(zip(lines, impl))[:: max(1, len(lines) // 4)]:
        ck.sample(dict(case=line[:400], impl=il[:300]))
    return ck.finish()
