# Shared runner for the IDL-parser properties (C05, C06, C09).
import os
import vcheck as V
import idlgen as G


def build(ck):
    ok, out = V.build_driver()
    if not ok:
        ck.broken.append("model driver build failed: " + out[-500:])
        return None
    ok, out, binp = V.build_go("h_idl")
    if not ok:
        # the harness no longer compiles against /repo: the tie cannot be evaluated
        ck.broken.append("harness h_idl does not build against /repo: " + out[-800:])
        return None
    return binp


def run_impl(binp, inputs):
    """-> list of result lines; a TIMEOUT/crash ends the batch, remaining inputs are re-run one by one"""
    lines = [V.hexs(x) for x in inputs]
    res = []
    i = 0
    hangs = 0
    while i < len(lines):
        if hangs >= 6:
            # each hanging input costs the watchdog's 8 s: six of them are reported, the rest of the batch is not run
            res += ["SKIPPED"] * (len(lines) - len(res))
            break
        rc, out, err = V.run_lines([binp], lines[i:], timeout=3600)
        res += out
        i = len(res)
        if rc == 0:
            break
        if rc == 3:          # watchdog fired on the last printed line
            hangs += 1
            continue
        # hard crash (e.g. stack overflow, fatal error): attribute it to the next input
        if i < len(lines):
            res.append("CRASH rc=%d %s" % (rc, err.strip().split("\n")[0][:200] if err else ""))
            i = len(res)
    return res


def run_model(inputs):
    return V.run_model_parallel("idl-parse", [V.hexs(x) for x in inputs])


def cls(line):
    return line.split(" ", 1)[0]


def oracle_impl(inputs, impl_lines):
    """Evaluate the C06 oracle (extracted Coq functions) on the trees the implementation produced."""
    idx = [i for i, l in enumerate(impl_lines) if l.startswith("OK ")]
    lines = ["%s %s" % (V.hexs(inputs[i]), impl_lines[i][3:]) for i in idx]
    out = V.run_model_parallel("idl-oracle", lines) if lines else []
    return dict(zip(idx, out))


def crosscheck(ck, inputs, model_lines, limit=200):
    small = [(i, m) for i, m in zip(inputs, model_lines) if len(i) <= 160][:limit]
    pairs = ["(%s, %s)" % (V.coq_bytes(i), V.coq_bytes(m.encode())) for i, m in small]
    ck.vm_crosscheck("Bytes Idl IdlDump", pairs, "(fun i e => bytes_eqb (idl_case i) e)")


def corpus(pid):
    p = os.path.join(V.ROOT, "corpus", pid + ".hex")
    out = []
    if os.path.exists(p):
        for l in open(p):
            l = l.split("#")[0].strip()
            if l:
                out.append(V.unhex(l))
    return out


def shrink(binp, data, pred_line):
    def pred(d):
        r = run_impl(binp, [d])
        return bool(r) and pred_line(d, r[0])
    try:
        return V.ddmin(data, pred) if len(data) <= 4096 else data
    except Exception:
        return data
