# C16 — No data races in the library under its intended concurrent use.
import json
import os
import re
import vcheck as V


def main(pid, argv):
    ck = V.Check(pid, argv)
    ck.rule = ("(a) translator: every access of every method of *Service and of ctxio.Conn to a receiver field, with the mutex state, regenerated from /repo's sources "
               "(harness/cmd/goaccess -> coq/gen/GenAccess.v) and checked against the lock discipline table_ok inside Coq; (b) dynamic: every single, pair and triple of "
               "{Shutdown, GetListener, RegisterInterface, Bind} concurrently with a running Listen and a running DoListen and 0-4 client connections (GetInfo, "
               "GetInterfaceDescription, calls, cancelled calls), randomised start offsets, plus client scenarios with one goroutine per connection in which a cancelled call, a cancelled raw Read on an upgraded "
               "connection (client side and handler side) is followed by further use of the same connection, all under the Go race detector; reports with frames in "
               "github.com/varlink/go/varlink are failing schedules. distinct = scenarios executed; non-trivial = all (each has a serving call and at least one concurrent operation)")
    ck.assumptions = ["the Go memory model is not formalised: race freedom under sequential consistency of the access protocol implies DRF, the standard argument",
                      "the race detector is a dynamic oracle; it only sees schedules that occur",
                      "goaccess tracks the mutex syntactically along statement lists (documented in its header)"]
    ck.check_obligations()
    # ---- (a) translator + Coq obligation on the regenerated table ----
    ok, out, ga = V.build_go("goaccess", overlay=False)
    if not ok:
        ck.broken.append("translator goaccess does not build: " + out[-400:])
        return ck.finish()
    gen = os.path.join(V.COQ, "gen")
    os.makedirs(gen, exist_ok=True)
    rc, txt = V.sh([ga, V.REPO], timeout=120)
    table_ok = False
    if rc != 0:
        ck.broken.append("translator failed on /repo's sources: " + txt[-400:])
    else:
        open(os.path.join(gen, "GenAccess.v"), "w").write(txt)
        with open(os.path.join(gen, "GenAccessCheck.v"), "w") as f:
            f.write("From VL Require Import Bytes Access GenAccess.\n"
                    "Definition verdict := Eval vm_compute in table_ok table.\nPrint verdict.\n"
                    "Definition bad := Eval vm_compute in filter (fun a => negb (rule a)) table.\nPrint bad.\n"
                    "Definition n := Eval vm_compute in length table.\nPrint n.\n")
        rc, o = V.sh("cd %s && timeout 300 coqc -Q . VL gen/GenAccess.v && timeout 300 coqc -Q . VL gen/GenAccessCheck.v" % V.COQ, timeout=700)
        table_ok = rc == 0 and re.search(r"verdict\s*=\s*true", o) is not None
        m = re.search(r"n\s*=\s*(\d+)", o)
        ck.extra["access_table_entries"] = int(m.group(1)) if m else 0
        ck.obligations.append(("lock discipline table_ok holds for the access table regenerated from /repo (gen/GenAccess.v, vm_compute)", table_ok,
                               "" if table_ok else o[-900:]))
        rct, plain = V.sh([ga, V.REPO, "text"], timeout=60)
        ck.extra["access_table"] = plain.strip().split("\n")[:200]
        for ext in ("vo", "glob", "vok", "vos"):
            for n in ("GenAccess", "GenAccessCheck"):
                try:
                    os.remove(os.path.join(gen, "%s.%s" % (n, ext)))
                except OSError:
                    pass
    # ---- (b) race detector ----
    ok, out, binp = build_race()
    if not ok:
        ck.broken.append("harness h_race does not build with -race: " + out[-400:])
        return ck.finish()
    iters = 12 if ck.tier == "thorough" else 1
    env = dict(os.environ, GORACE="halt_on_error=0")
    import subprocess
    p = subprocess.run([binp, str(iters), str(ck.seed)], stdout=subprocess.PIPE, stderr=subprocess.PIPE, env=env, timeout=3000)
    so, se = p.stdout.decode("utf-8", "replace"), p.stderr.decode("utf-8", "replace")
    m = re.search(r"done (\d+)", so)
    n_scen = int(m.group(1)) if m else 0
    ck.evaluations = n_scen
    for i in range(n_scen):
        ck.distinct.add(i)
    ck.count("scenarios", n_scen)
    reports = [r for r in se.split("==================") if "DATA RACE" in r]
    lib = [r for r in reports if "github.com/varlink/go/varlink" in r]
    ck.count("race_reports", len(reports))
    if "NORETURN" in so:
        ck.fail("race-noreturn", "h_race %d %d" % (iters, ck.seed), "a serving call did not return after Shutdown during the concurrent scenarios", impl=so[-300:])
    if m is None:
        ck.fail("race-crash", "h_race %d %d" % (iters, ck.seed), "the scenario driver crashed: " + se[-600:], impl=so[-300:])
    seen = set()
    for r in lib:
        sig = tuple(re.findall(r"varlink\.\(\*?(\w+)\)\.(\w+)", r)[:4])
        if sig in seen:
            continue
        seen.add(sig)
        if len(seen) <= 3:
            ck.fail("data-race", "h_race %d %d" % (iters, ck.seed), "the race detector reports a data race on the library's own state: " + " / ".join(".".join(x) for x in sig),
                    impl=r.strip()[:2500])
    if not table_ok and not lib:
        ck.broken.append("the access table regenerated from /repo no longer satisfies table_ok (see obligation detail); the race detector found no failing schedule in this run")
    ck.sample(dict(scenarios=n_scen, race_reports=len(reports), in_library=len(lib)))
    return ck.finish()


def build_race():
    os.makedirs(V.BIN, exist_ok=True)
    out_bin = os.path.join(V.BIN, "h_race")
    rc, out = V.sh("cd %s && go build -race -tags verif -overlay %s -o %s ./cmd/h_race"
                   % (V.HARNESS, os.path.join(V.HARNESS, "overlay", "overlay.json"), out_bin), env=V.GOENV, timeout=900)
    return rc == 0, out, out_bin
