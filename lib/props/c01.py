# C01 — Per-call reply discipline on every connection.
import json
import vcheck as V
import svcgen as S
import jsongen as J
from props import svccommon as C


def gen_case(rng, big=False):
    """-> (case line, per-connection expectation inputs)"""
    n_if = rng.choice([1, 1, 2, 3])
    ifaces = rng.sample(S.IFACE_POOL, n_if)
    vendor, product, version, url = [rng.choice([b"v", b"", b"Vendor <x>", "é".encode(), b"p\x00q"]) for _ in range(4)]
    secs = ["svc %s %s %s %s %s" % (S.hx(vendor), S.hx(product), S.hx(version), S.hx(url), S.hx(C.svc_descr()))]
    descrs = {S.SVC: C.svc_descr()}
    for i in ifaces:
        d = b"interface " + i + b"\nmethod M() -> ()"
        descrs[i] = d
        secs.append("iface %s %s" % (S.hx(i), S.hx(d)))
    scripts = {}
    for i in ifaces:
        for m in rng.sample(S.METHODS, rng.choice([1, 2, 3])):
            steps, ret = S.rand_script(rng)
            scripts[i + b"." + m] = (steps, ret)
            secs.append(S.script_text(i + b"." + m, steps, ret))
    n_conn = rng.choice([1, 1, 1, 2, 3, 5, 8]) if not big else 8
    conns = []
    known = list(scripts.keys())
    for _ in range(n_conn):
        calls = []
        data = b""
        for _ in range(rng.choice([1, 2, 3, 5, 8, 12])):
            r = rng.random()
            if r < 0.55 and known:
                method = rng.choice(known)
            elif r < 0.65:
                method = rng.choice(ifaces) + b"." + rng.choice([b"Nope", b"", b"M.N"])
            elif r < 0.75:
                method = rng.choice([b"zz", b"", b".M", b"nodot", b"unknown.iface.M", b"a.b.", b"a..b.M", b"x"])
            elif r < 0.85:
                method = b"org.varlink.service.GetInfo"
            elif r < 0.95:
                method = b"org.varlink.service.GetInterfaceDescription"
            else:
                method = b"org.varlink.service." + rng.choice([b"Unknown", b"", b"getInfo"])
            fl = rng.random()
            more = fl < 0.3
            oneway = 0.3 <= fl < 0.5 or (fl > 0.95)
            upgrade = 0.5 <= fl < 0.6
            if method.endswith(b"GetInterfaceDescription"):
                name = rng.choice(list(descrs.keys()) + [b"nope", b""])
                params = rng.choice([None, b"null", b"[]", b'{"interface":5}', b"{}", json.dumps({"interface": name.decode("utf-8", "replace")}).encode(),
                                     json.dumps({"interface": name.decode("utf-8", "replace")}).encode()])
            else:
                params = rng.choice([None, b"{}", J.text_of(rng, None, 2), J.text_of(rng, None, 2)])
            calls.append(C.Call(method, params, more, oneway, upgrade))
            data += S.call_bytes(rng, method, params, more, oneway, upgrade) + b"\x00"
        mode = rng.choice(["half", "half", "pause"])
        conns.append((calls, data))
        secs.append("conn %s %s" % (mode, ",".join(c.hex() for c in S.segment(rng, data))))
    info = {}
    for k, v in (("vendor", vendor), ("product", product), ("version", version), ("url", url)):
        if v:
            info[k] = v.decode("utf-8", "replace")
    info["interfaces"] = [S.SVC.decode()] + [i.decode("utf-8") for i in ifaces]
    return " | ".join(secs), dict(registry=ifaces, descrs=descrs, scripts=scripts, conns=conns, info=info,
                                  comparable=all(_utf8(v) for v in (vendor, product, version, url)))


def _utf8(b):
    try:
        b.decode("utf-8")
        return True
    except UnicodeDecodeError:
        return False


def main(pid, argv):
    ck = V.Check(pid, argv)
    ck.rule = ("cases: services with 1-3 interfaces (names that are prefixes/suffixes of each other) x scripted dispatchers (k continues-replies, final reply, "
               "error replies with good/refused names, standard errors, marshal failures, handler error, no reply; per-step policy) x 1-8 concurrent connections (also: two connections whose handlers wait for each other, the second one opened while the first handler runs) "
               "each sending 1-12 calls (plain/more/oneway/upgrade; registered, unknown interface, no dot, org.varlink.service methods) in generated segmentations "
               "(one write, byte-by-byte, random cuts, per frame). distinct = distinct case lines; non-trivial = a case with at least one dispatched handler call")
    ck.assumptions = ["isolation of N connections: the Go scheduler samples interleavings; the theorem covers all traces of the model, in which connections share only the immutable registry",
                      "the independent oracle (lib/props/svccommon.py expected_conn) is the reading of the statement; model equality is byte-exact"]
    ck.check_obligations()
    ck.lock_facts_obligation()
    bins = C.build(ck)
    if bins is None:
        return ck.finish()
    rng = ck.rng
    thorough = ck.tier == "thorough"
    cases = []
    if ck.replay:
        rp = json.load(open(ck.replay))
        lines = [rp["failing"]["case"]]
        metas = [None]
    else:
        for i in range(6000 if thorough else 500):
            cases.append(gen_case(rng, big=(i % 10 == 0)))
        # handlers of two connections that wait for each other; the second connection arrives while the first handler runs
        for i in range(60 if thorough else 6):
            cases.append(C.meet_case(rng))
        for i in range(20 if thorough else 3):
            cases.append(C.deadline_reply_case(rng))
        lines = [c[0] for c in cases]
        metas = [c[1] for c in cases]
    impl = C.run_impl(bins["h_svc"], lines)
    model = C.run_model(lines)
    ck.evaluations = len(lines)
    nf = 0
    for line, meta, il, ml in zip(lines, metas, impl, model):
        iconns, isvc = C.split_result(il)
        mconns, _ = C.split_result(ml)
        bad = None
        if iconns is None:
            bad = "service run failed: " + il[:200]
        else:
            if isvc.get("released") != "1" or isvc.get("returned") != "1":
                bad = "service did not drain / return after Shutdown: " + str(isvc)
            for ci, cs in enumerate(iconns):
                out, log, ovl = C.conn_fields(cs)
                if ovl != "0":
                    bad = "connection %d: a call was dispatched before the previous handler returned" % ci
                if out is None:
                    bad = "connection %d: client did not reach end of stream" % ci
                if bad or meta is None:
                    continue
                calls, _ = meta["conns"][ci]
                if any(e.startswith("H") for e in log):
                    ck.distinct.add(line)
                exp_frames, exp_log = C.expected_conn(meta["registry"], meta["descrs"], meta["scripts"], calls, meta["info"])
                frames, trailing = C.frames_of(out)
                ck.count("calls", len(calls))
                ck.count("frames", len(frames))
                if trailing:
                    bad = "connection %d: bytes after the last NUL" % ci
                elif log != exp_log:
                    bad = "connection %d: dispatch log differs from the statement's reading: got %s expected %s" % (ci, log[:6], exp_log[:6])
                elif len(frames) != len(exp_frames):
                    bad = "connection %d: %d replies written, %d expected" % (ci, len(frames), len(exp_frames))
                else:
                    for k, (fr, ex) in enumerate(zip(frames, exp_frames)):
                        if ex is None or (not meta["comparable"] and isinstance(ex, dict) and "vendor" in str(ex)):
                            continue
                        if C.frame_obj(fr) != C.norm(ex):
                            bad = "connection %d: reply %d is %r, expected %r" % (ci, k, fr[:200], ex)
                            break
        if bad:
            nf += 1
            ck.fail("svc-discipline", line, bad, impl=il[:1500], model=ml[:1500])
            continue
        if iconns != mconns:
            ck.tie_broken("per-connection bytes / dispatch log differ", line[:1500], il[:600], ml[:600])
    ck.extra["failing_inputs_total"] = nf
    for line, il in list(zip(lines, impl))[:: max(1, len(lines) // 4)]:
        ck.sample(dict(case=line[:400], impl=il[:300]))
    # vm_compute cross-check of the extracted model is done on the framing level by C02/C18 and on decoding by C10;
    # here the OCaml glue builds closures (handler strategies), which have no textual Coq form.
    return ck.finish()
