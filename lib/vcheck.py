# vcheck.py — orchestration shared by every property check.
#
# Run protocol (DESIGN.md §2.1): obligations -> tie -> spec oracle on the
# implementation -> verdict -> evidence.  Nothing here knows about a particular
# property; lib/props/cXX.py supply generators, observables and oracles.
import fcntl
import hashlib
import json
import os
import random
import re
import subprocess
import sys
import time

ROOT = os.path.dirname(os.path.dirname(os.path.abspath(__file__)))
COQ = os.path.join(ROOT, "coq")
BUILD = os.path.join(ROOT, "build")
BIN = os.path.join(BUILD, "bin")
ML = os.path.join(BUILD, "ml")
HARNESS = os.path.join(ROOT, "harness")
REPO = "/repo"

GOENV = dict(os.environ, GOFLAGS="-mod=mod", GOPROXY="off", GOSUMDB="off",
             GOTOOLCHAIN="local", CGO_ENABLED=os.environ.get("CGO_ENABLED", "1"))

TRUSTED_BASE = [
    "Coq 8.16.1 kernel (coqc, vm_compute; no native_compute); thorough tier re-checks with coqchk",
    "axioms: none (every property theorem is 'Closed under the global context')",
    "extraction: ExtrOcamlBasic only (bool/option/unit/list/prod/sumbool/sumor -> OCaml natives; nat/N/Z/positive stay extracted datatypes); OCaml 4.13.1; ocaml/driver.ml (I/O glue)",
    "hand-written Gallina model of the Go code; tied to /repo by the correspondence harness (differential testing, not proof)",
    "Go 1.23.5 toolchain and standard library; the Go harness under harness/; lib/*.py generators and differ",
]

HYGIENE_RE = re.compile(
    r"\b(Admitted|admit|Axiom|Axioms|Parameter|Parameters|Conjecture|Conjectures|Hypothesis|Hypotheses|Variable|Variables)\b"
    r"|Unset\s+Guard|Unset\s+Positivity|Unset\s+Universe|bypass_check|type-in-type|impredicative-set|Admit\s+Obligations")


def sh(cmd, timeout=1200, env=None, cwd=None, inp=None):
    p = subprocess.run(cmd, shell=isinstance(cmd, str), cwd=cwd, env=env, input=inp,
                       stdout=subprocess.PIPE, stderr=subprocess.STDOUT, timeout=timeout)
    return p.returncode, p.stdout.decode("utf-8", "replace")


class Lock:
    def __init__(self, name):
        os.makedirs(BUILD, exist_ok=True)
        self.path = os.path.join(BUILD, name + ".lock")

    def __enter__(self):
        self.f = open(self.path, "w")
        fcntl.flock(self.f, fcntl.LOCK_EX)

    def __exit__(self, *a):
        fcntl.flock(self.f, fcntl.LOCK_UN)
        self.f.close()


def strip_coq_comments(text):
    """Remove comments (nested) and blank out string literals, the way Coq's lexer sees them:
    a '(*' inside a string does not open a comment, a string inside a comment is skipped as a string."""
    out, depth, i, n = [], 0, 0, len(text)
    while i < n:
        c = text[i]
        if c == '"':
            j = i + 1
            while j < n:
                if text[j] == '"':
                    if j + 1 < n and text[j + 1] == '"':
                        j += 2
                        continue
                    break
                j += 1
            if depth == 0:
                out.append('""')
            i = j + 1
        elif text.startswith("(*", i):
            depth += 1
            i += 2
        elif text.startswith("*)", i) and depth > 0:
            depth -= 1
            i += 2
        else:
            if depth == 0:
                out.append(c)
            i += 1
    return "".join(out)


def coq_sources():
    """The development: every file listed in _CoqProject, the property files and Extract.v
    (files not yet listed there are work in progress and not part of any claim)."""
    res = []
    for l in open(os.path.join(COQ, "_CoqProject")):
        l = l.strip()
        if l.endswith(".v"):
            res.append(os.path.join(COQ, l))
    pd = os.path.join(COQ, "Props")
    for f in sorted(os.listdir(pd)):
        if f.endswith(".v"):
            res.append(os.path.join(pd, f))
    res.append(os.path.join(COQ, "Extract.v"))
    return sorted(set(res))


def hygiene():
    """Forbidden declarations anywhere in the development (comments excluded).
    Variable/Hypothesis are allowed only inside a Section."""
    bad = []
    for path in coq_sources():
        txt = strip_coq_comments(open(path).read())
        depth = 0
        for ln, line in enumerate(txt.split("\n"), 1):
            if re.match(r"\s*Section\b", line):
                depth += 1
            if re.match(r"\s*End\b", line) and depth > 0:
                depth -= 1
            for m in HYGIENE_RE.finditer(line):
                w = m.group(0)
                if w.startswith(("Variable", "Hypothes")) and depth > 0:
                    continue
                bad.append("%s:%d: %s" % (os.path.relpath(path, ROOT), ln, line.strip()))
    return bad


def build_coq(clean=False):
    """Full .vo build of the development (never -vos).  A no-op when up to date."""
    with Lock("coq"):
        if clean and os.path.exists(os.path.join(COQ, "Makefile")):
            sh("make -C %s clean" % COQ, timeout=300)
        rc, out = sh("cd %s && coq_makefile -f _CoqProject -o Makefile >/dev/null && timeout 3000 make -j16 2>&1" % COQ,
                     timeout=3100)
        return rc == 0, out


def build_driver():
    """Extract the model and compile the OCaml driver when stale."""
    with Lock("ml"):
        os.makedirs(ML, exist_ok=True)
        drv = os.path.join(ML, "driver")
        srcs = [p[:-2] + ".vo" for p in coq_sources() if "/Model/" in p or "/Base/" in p]
        srcs += [os.path.join(COQ, "Extract.v"), os.path.join(ROOT, "ocaml", "driver.ml")]
        newest = max(os.path.getmtime(p) for p in srcs if os.path.exists(p))
        if os.path.exists(drv) and os.path.getmtime(drv) >= newest:
            return True, "up to date"
        rc, out = sh("cd %s && timeout 900 coqc -Q %s VL %s/Extract.v && cp %s/ocaml/driver.ml . && "
                     "timeout 900 ocamlfind ocamlopt -O3 -w -a model.mli model.ml driver.ml -o driver.new && mv driver.new driver"
                     % (ML, COQ, COQ, ROOT), timeout=2000)
        return rc == 0, out


def build_go(name, tags="verif", overlay=True):
    """(Re)build harness command `name` against /repo's current working tree."""
    os.makedirs(BIN, exist_ok=True)
    out_bin = os.path.join(BIN, name)
    ov = ""
    ovf = os.path.join(HARNESS, "overlay", "overlay.json")
    if overlay and os.path.exists(ovf):
        ov = "-overlay %s" % ovf
    rc, out = sh("cd %s && go build -tags %s %s -o %s ./cmd/%s" % (HARNESS, tags, ov, out_bin, name),
                 env=GOENV, timeout=900)
    return rc == 0, out, out_bin


def _big_stack():
    # extracted list functions are not tail-recursive: multi-megabyte strings need a deep native stack
    import resource
    try:
        soft, hard = resource.getrlimit(resource.RLIMIT_STACK)
        resource.setrlimit(resource.RLIMIT_STACK, (hard, hard))
    except (ValueError, OSError):
        pass


def run_lines(cmd, lines, timeout=1800, env=None):
    """Feed one case per line, get one result line per case."""
    data = ("\n".join(lines) + "\n").encode()
    p = subprocess.run(cmd, input=data, stdout=subprocess.PIPE, stderr=subprocess.PIPE, timeout=timeout, env=env,
                       preexec_fn=_big_stack)
    out = p.stdout.decode("utf-8", "replace").split("\n")
    if out and out[-1] == "":
        out.pop()
    return p.returncode, out, p.stderr.decode("utf-8", "replace")


def run_model(sub, lines, timeout=1800):
    rc, out, err = run_lines([os.path.join(ML, "driver"), sub], lines, timeout)
    if rc != 0 or len(out) != len(lines):
        raise RuntimeError("model driver failed for %s: rc=%s, %d/%d lines\n%s" % (sub, rc, len(out), len(lines), err[-2000:]))
    return out


def run_model_parallel(sub, lines, jobs=8, timeout=1800):
    if len(lines) < 2000:
        return run_model(sub, lines, timeout)
    from concurrent.futures import ThreadPoolExecutor
    n = (len(lines) + jobs - 1) // jobs
    parts = [lines[i:i + n] for i in range(0, len(lines), n)]
    with ThreadPoolExecutor(jobs) as ex:
        res = list(ex.map(lambda p: run_model(sub, p, timeout), parts))
    return [x for r in res for x in r]


def hexs(b):
    return b.hex() if b else "-"


def unhex(s):
    return b"" if s == "-" else bytes.fromhex(s)


def coq_bytes(b):
    return "[" + ";".join(str(x) for x in b) + "]%N"


class Check:
    def __init__(self, pid, argv):
        self.pid = pid
        self.tier = os.environ.get("VERIF_TIER", "quick")
        self.replay = None
        i = 0
        while i < len(argv):
            if argv[i] == "--tier":
                self.tier = argv[i + 1]
                i += 2
            elif argv[i] == "--replay":
                self.replay = argv[i + 1]
                i += 2
            else:
                i += 1
        if self.tier not in ("quick", "thorough"):
            self.tier = "quick"
        self.seed = int(os.environ.get("VERIF_SEED", "1"))
        self.rng = random.Random(self.seed * 1000003 + int(hashlib.sha1(pid.encode()).hexdigest()[:6], 16))
        self.t0 = time.time()
        self.obligations = []        # (name, ok, detail)
        self.broken = []             # obligations / correspondences that no longer check
        self.failures = []           # concrete failing inputs: dict(kind, case, impl, model, what)
        self.known_hits = []
        self.evaluations = 0
        self.distinct = set()
        self.samples = []
        self.dist = {}
        self.notes = []
        self.rule = ""
        self.assumptions = []
        self.extra = {}
        self.findings = [f for f in json.load(open(os.path.join(ROOT, "known_findings.json")))["findings"]
                         if f["property"] == pid]

    # ---- obligations -------------------------------------------------
    def check_obligations(self):
        ok, out = build_coq()
        self.obligations.append(("coq development builds (make, full .vo)", ok, out[-1500:] if not ok else ""))
        if not ok:
            self.broken.append("coq build: " + out[-800:])
        bad = hygiene()
        self.obligations.append(("no Admitted/admit/Axiom/Parameter/unguarded Variable/disabled checks", not bad, "; ".join(bad[:5])))
        if bad:
            self.broken.append("hygiene: " + "; ".join(bad[:5]))
        prop = os.path.join(COQ, "Props", self.pid + ".v")
        if not os.path.exists(prop):
            self.obligations.append(("property file Props/%s.v exists" % self.pid, False, "missing"))
            self.broken.append("Props/%s.v missing" % self.pid)
            return
        rc, out = sh("cd %s && timeout 900 coqc -Q . VL Props/%s.v" % (COQ, self.pid), timeout=1000)
        if rc != 0:
            self.obligations.append(("Props/%s.v compiles" % self.pid, False, out[-1500:]))
            self.broken.append("Props/%s.v does not compile: %s" % (self.pid, out[-600:]))
            return
        src = strip_coq_comments(open(prop).read())
        thms = re.findall(r"\b(?:Theorem|Lemma|Example|Corollary)\s+([A-Za-z0-9_']+)", src)
        printed = re.findall(r"Print Assumptions\s+([A-Za-z0-9_']+)", src)
        blocks = re.split(r"(?=Closed under the global context|Axioms:)", out)
        results = [b for b in blocks if b.startswith("Closed under") or b.startswith("Axioms:")]
        for i, name in enumerate(printed):
            r = results[i] if i < len(results) else "missing"
            closed = r.startswith("Closed under")
            self.obligations.append(("%s: proved, Print Assumptions = Closed under the global context" % name, closed,
                                     "" if closed else r[:400]))
            if not closed:
                self.broken.append("theorem %s depends on axioms: %s" % (name, r[:300]))
        for t in thms:
            if t not in printed:
                self.obligations.append(("%s: Print Assumptions present" % t, False, "missing"))
                self.broken.append("theorem %s has no Print Assumptions" % t)
        self.extra["theorems"] = printed
        if self.tier == "thorough":
            self.coqchk()

    def lock_facts_obligation(self):
        """Regenerate, from /repo's service.go, the table of calls that run handlers or may block on a peer, with the state of the service
        mutex at each call site, and let Coq evaluate lock_facts_ok on it (Model/LockFacts.v)."""
        import re
        ok, out, ga = build_go("goaccess", overlay=False)
        if not ok:
            self.broken.append("translator goaccess does not build: " + out[-400:])
            return
        gen = os.path.join(COQ, "gen")
        os.makedirs(gen, exist_ok=True)
        rc, txt = sh([ga, REPO], timeout=120)
        if rc != 0:
            self.broken.append("translator goaccess failed on /repo's sources: " + txt[-400:])
            return
        mod = "GenLock_%s" % self.pid
        open(os.path.join(gen, mod + ".v"), "w").write(txt)
        open(os.path.join(gen, mod + "Check.v"), "w").write("From VL Require Import Bytes Access LockFacts %s.\n"
                                                            "Definition verdict := Eval vm_compute in lock_facts_ok callouts && handler_writes_ok table.\nPrint verdict.\n"
                                                            "Definition unlocked_writes := Eval vm_compute in filter (fun a => handler_write a && negb (a_locked a)) table.\nPrint unlocked_writes.\n"
                                                            "Definition held := Eval vm_compute in filter a_locked callouts.\nPrint held.\n" % mod)
        rc, o = sh("cd %s && timeout 300 coqc -Q . VL gen/%s.v && timeout 300 coqc -Q . VL gen/%sCheck.v" % (COQ, mod, mod), timeout=700)
        good = rc == 0 and re.search(r"verdict\s*=\s*true", o) is not None
        rct, plain = sh([ga, REPO, "text"], timeout=60)
        held = [l for l in plain.split("\n") if l.startswith("callout") and "locked=true" in l]
        self.extra["callouts"] = [l for l in plain.split("\n") if l.startswith("callout")][:60]
        self.obligations.append(("no handler dispatch, reply or connection I/O is called with the service mutex held (calls regenerated from /repo's service.go, "
                                 "lock_facts_ok by vm_compute): connections share nothing but the registry", good, "" if good else ("; ".join(held) or o[-500:])))
        for ext in ("vo", "glob", "vok", "vos"):
            for nme in (mod, mod + "Check"):
                try:
                    os.remove(os.path.join(gen, "%s.%s" % (nme, ext)))
                except OSError:
                    pass

    def coqchk(self):
        rc, out = sh("cd %s && timeout 3000 coqchk -silent -o -Q . VL VL.Props.%s 2>&1" % (COQ, self.pid), timeout=3100)
        ok = rc == 0
        axioms = re.findall(r"^\s+([A-Za-z0-9_.]+)\s*$", out.split("Axioms:")[-1], re.M) if "Axioms:" in out else []
        self.obligations.append(("coqchk re-checks Props/%s.vo and its dependencies" % self.pid, ok, out[-600:]))
        self.extra["coqchk_axioms_of_loaded_libraries"] = axioms
        if not ok:
            self.broken.append("coqchk failed: " + out[-400:])

    # ---- vm_compute cross-check of the extracted model -----------------
    def vm_crosscheck(self, imports, pairs_coq, eqfun):
        """pairs_coq: list of Coq terms of type (A * bytes); eqfun: Coq term A -> bytes -> bool."""
        os.makedirs(os.path.join(COQ, "gen"), exist_ok=True)
        name = "Cases_%s" % self.pid
        path = os.path.join(COQ, "gen", name + ".v")
        with open(path, "w") as f:
            f.write("(* regenerated on every run of ./check %s: the extracted model's answers, re-evaluated by vm_compute *)\n" % self.pid)
            f.write("From VL Require Import %s.\nOpen Scope N_scope.\n" % imports)
            f.write("Definition cases := [\n" + ";\n".join(pairs_coq) + "].\n")
            f.write("Definition mism := Eval vm_compute in\n  length (filter (fun c => negb (%s (fst c) (snd c))) cases).\n" % eqfun)
            f.write("Print mism.\n")
        rc, out = sh("cd %s && timeout 900 coqc -Q . VL gen/%s.v" % (COQ, name), timeout=1000)
        ok = rc == 0 and re.search(r"mism\s*=\s*0\b", out.replace("\n", " ")) is not None
        self.obligations.append(("vm_compute agrees with the extracted OCaml model on %d sampled cases" % len(pairs_coq), ok,
                                 "" if ok else out[-600:]))
        if not ok:
            self.broken.append("extraction cross-check (gen/%s.v): %s" % (name, out[-400:]))
        for ext in (".vo", ".glob", ".vok", ".vos"):
            try:
                os.remove(os.path.join(COQ, "gen", name + ext))
            except OSError:
                pass
        return ok

    # ---- bookkeeping ---------------------------------------------------
    def count(self, key, n=1):
        self.dist[key] = self.dist.get(key, 0) + n

    def sample(self, s, limit=8):
        if len(self.samples) < limit:
            self.samples.append(s)

    def fail(self, kind, case, what, impl=None, model=None, extra=None):
        """record a concrete failing input; at most 5 per kind are kept in detail, all are counted"""
        self.fail_counts = getattr(self, "fail_counts", {})
        self.fail_counts[kind] = self.fail_counts.get(kind, 0) + 1
        if self.fail_counts[kind] <= 5:
            self.failures.append(dict(kind=kind, case=case, what=what, impl=impl, model=model, extra=extra or {}))

    def tie_broken(self, what, case=None, impl=None, model=None):
        self.broken.append("correspondence: " + what + (" case=%s impl=%s model=%s" % (case, impl, model) if case is not None else ""))

    def known(self, failure):
        for f in self.findings:
            if f.get("state") != "known":
                continue
            m = f["match"]
            if m.get("kind") == failure["kind"] and all(failure.get("extra", {}).get(k) == v for k, v in m.items() if k != "kind"):
                return f
        return None

    # ---- verdict + evidence ---------------------------------------------
    def finish(self, level="proof"):
        os.makedirs(os.path.join(ROOT, "replays"), exist_ok=True)
        os.makedirs(os.path.join(ROOT, "evidence"), exist_ok=True)
        lines = []
        fresh = []
        seen_known = set()
        # an obligation that no longer holds means the property is no longer shown to hold, whatever the sampled runs said
        for o in self.obligations:
            if not o[1] and not any(o[0][:60] in b for b in self.broken):
                self.broken.append("obligation no longer holds: %s %s" % (o[0], str(o[2])[:400]))
        for fl in self.failures:
            k = self.known(fl)
            if k:
                if k["id"] not in seen_known:
                    seen_known.add(k["id"])
                    lines.append("KNOWN-FINDING: property=%s %s" % (self.pid, k["what"]))
            else:
                fresh.append(fl)
        rc = 0
        replay_cmd = "./check %s --replay {path}" % self.pid
        if fresh:
            fl = fresh[0]
            h = hashlib.sha1(json.dumps(fl, sort_keys=True, default=str).encode()).hexdigest()[:12]
            path = os.path.join(ROOT, "replays", "%s-%s.json" % (self.pid, h))
            json.dump(dict(property=self.pid, seed=self.seed, tier=self.tier, failing=fl, more=fresh[1:6],
                           total_failing=len(fresh), replay=replay_cmd.format(path=path)), open(path, "w"), indent=1, default=str)
            lines.append("VIOLATION property=%s replay=%s" % (self.pid, path))
            # the reason, so that a log of this run explains itself even when the replay file is out of reach
            lines.append("  what: [%s] %s" % (fl.get("kind", "?"), str(fl.get("what", ""))[:600].replace("\n", " ")))
            lines.append("  case: %s" % str(fl.get("case", ""))[:400].replace("\n", " "))
            rc = 1
        elif self.broken:
            h = hashlib.sha1("\n".join(self.broken).encode()).hexdigest()[:12]
            path = os.path.join(ROOT, "replays", "%s-unproved-%s.json" % (self.pid, h))
            json.dump(dict(property=self.pid, seed=self.seed, tier=self.tier, no_longer_checks=self.broken,
                           note="no concrete failing input was found on the implementation; the property is no longer shown to hold"),
                      open(path, "w"), indent=1)
            lines.append("VIOLATION property=%s replay=%s no-failing-input-found" % (self.pid, path))
            lines.append("  no longer checks: %s" % self.broken[0][:800].replace("\n", " "))
            rc = 1
        n_ob = len(self.obligations)
        n_ok = sum(1 for o in self.obligations if o[1])
        ev = dict(
            property_id=self.pid, tier=self.tier, seed=self.seed, level=level,
            coverage=dict(
                obligations=n_ob, discharged=n_ok,
                checker_cmd="make -C coq (coqc 8.16.1, full .vo) && coqc -Q coq VL coq/Props/%s.v [Print Assumptions]%s"
                            % (self.pid, " && coqchk -silent -o VL.Props.%s" % self.pid if self.tier == "thorough" else ""),
                trusted_base=TRUSTED_BASE,
                obligation_list=[dict(name=o[0], ok=o[1], detail=o[2]) for o in self.obligations],
                evaluations=self.evaluations, distinct_nontrivial=len(self.distinct),
                rule=self.rule, samples=self.samples, input_distribution=self.dist,
                known_findings_seen=sorted(seen_known), failing_by_kind=getattr(self, "fail_counts", {}), notes=self.notes, **self.extra),
            assumptions=self.assumptions, wall_s=round(time.time() - self.t0, 2),
            violations=len(fresh) + (1 if (self.broken and not fresh) else 0))
        json.dump(ev, open(os.path.join(ROOT, "evidence", self.pid + ".json"), "w"), indent=1, default=str)
        for l in lines:
            print(l)
        print("%s %s tier=%s seed=%d evaluations=%d distinct=%d obligations=%d/%d wall=%.1fs"
              % ("FAIL" if rc else "PASS", self.pid, self.tier, self.seed, self.evaluations, len(self.distinct), n_ok, n_ob,
                 time.time() - self.t0))
        sys.stdout.flush()
        return rc


def ddmin(data, pred, max_calls=400):
    """Delta-debugging minimisation of a bytes object under pred (pred(data) is True initially)."""
    calls = [0]

    def ok(d):
        calls[0] += 1
        return calls[0] <= max_calls and pred(d)

    n = 2
    while len(data) >= 2 and calls[0] < max_calls:
        chunk = max(1, len(data) // n)
        reduced = False
        for i in range(0, len(data), chunk):
            cand = data[:i] + data[i + chunk:]
            if cand != data and ok(cand):
                data = cand
                n = max(n - 1, 2)
                reduced = True
                break
        if not reduced:
            if chunk == 1:
                break
            n = min(len(data), n * 2)
    return data
