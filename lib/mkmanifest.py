#!/usr/bin/env python3
# Regenerates MANIFEST.json from the table below (kept in one place so that it always validates).
import json
import os

ROOT = os.path.dirname(os.path.dirname(os.path.abspath(__file__)))

TRUST = ("Trusted: Coq 8.16.1 kernel incl. vm_compute (coqchk in the thorough tier); no axioms (Print Assumptions: closed); "
         "ExtrOcamlBasic extraction + OCaml 4.13.1 + ocaml/driver.ml, cross-checked against vm_compute on a sample every run; "
         "the hand-written model is tied to /repo only by the correspondence harness (differential testing on generated inputs), "
         "Go 1.23.5 toolchain/stdlib, lib/*.py generators.")

CHECKS = {
    "C05": dict(
        text="Coq theorems over the parser model for all well-formed trees and all layouts (Props/C05.v); the model is tied to idl.go by "
             "differential runs on bounded-exhaustive and random trees x layouts, with the generator's expected tree as oracle on the implementation, "
             "and an exhaustive small-alphabet comparison of the interface-name matcher with Go's regexp.",
        ref="DESIGN.md §6 C05", technique="Coq proof (induction over the syntax tree / rendering derivation) + differential correspondence"),
    "C06": dict(
        text="Coq theorem: whenever the parser model accepts, strip(input) = strip(print(tree)) and the tree is wf_liberal, for all byte strings "
             "(Props/C06.v); tie: token-level mutations, all short token sequences, byte mutations; the extracted re-print oracle is evaluated on the "
             "implementation's own trees.",
        ref="DESIGN.md §6 C06", technique="Coq proof (induction on fuel over the parser model) + differential correspondence"),
    "C09": dict(
        text="Coq theorem: the cursor-faithful parser model never reaches a Go slice panic nor runs out of fuel, for every byte string (Props/C09.v); "
             "tie: every truncation of valid descriptions, all short token sequences, random bytes, 64 KiB inputs and deep nesting under recover() "
             "with a watchdog.",
        ref="DESIGN.md §6 C09", technique="Coq proof (cursor invariant + fuel sufficiency) + differential correspondence"),
}

CHECKS["C18"] = dict(
    text="Coq theorems: for every bufio capacity, every chunking and every sequence of ReadBytes/Read operations the bytes delivered ++ buffered ++ pending "
         "equal the stream, and a raw read after a frame read returns the bytes that follow the frame (Props/C18.v); tie: per-operation equality of the model "
         "(capacity 4096) with ctxio.Conn on a connection delivering exact chunks, plus upgraded calls through a real service and a real client, 20 MiB of raw payload, "
         "and a raw read blocked while writes on the same connection complete.",
    ref="DESIGN.md §6 C18", technique="Coq proof (stream invariant over operation sequences) + differential correspondence")

CHECKS["C01"] = dict(
    text="Coq theorems over the service model for all registries, handler strategy trees, frame sequences and segmentations: the connection loop refines the "
         "stream-level specification, oneway calls write nothing, continues needs more, refused attempts write nothing, output = per-call outputs in arrival order, "
         "no dispatch after a handler error, N connections are isolated (Props/C01.v); tie: scripted dispatchers behind a real DoListen with 1-8 concurrent raw "
         "clients, byte-exact comparison with the model plus an independent Python reading of the statement as oracle.",
    ref="DESIGN.md §6 C01", technique="Coq proof (refinement to a stream-level spec, trace induction) + differential correspondence")
CHECKS["C04"] = dict(
    text="Coq theorems: routing is characterised by the last '.', built-in namespace intercepted first, exactly one standard error reply in the three error cases, "
         "the dispatcher of exactly the selected interface runs once, undecodable frames are never dispatched (Props/C04.v); tie: dot-placement grammar x registry "
         "sets on a real service, each dispatcher answering with its own name.",
    ref="DESIGN.md §6 C04", technique="Coq proof (case analysis on the last dot) + differential correspondence")
CHECKS["C10"] = dict(
    text="Coq theorems: dispatch iff the frame is complete and decodes and no earlier frame failed; bad frames close silently; a partial trailing frame is never "
         "dispatched; the Go slice expressions on this path are in bounds (Props/C10.v); tie: mutated/random/wrong-shape streams cut at every offset with "
         "half-closing and aborting clients beside a probe connection; release observed through the connection counter and Shutdown.",
    ref="DESIGN.md §6 C10", technique="Coq proof (refinement + characterisation of the dispatch log) + differential correspondence with fault injection at every offset")

CHECKS["C02"] = dict(
    text="Coq theorems: string / value / RawMessage encodings contain no byte below 0x20, so replies and calls are NUL-free before their terminating NUL; "
         "deframing yields exactly the messages sent for every partition into segments and every buffer capacity (Props/C02.v); tie: byte-exact comparison of the "
         "service's reply marshalling and Connection.Send with the model on generated values incl. multi-MiB and deeply nested ones, and client<->service runs through "
         "a re-segmenting proxy.",
    ref="DESIGN.md §6 C02", technique="Coq proof (structural induction on values; stream invariant of the reader) + differential correspondence")
CHECKS["C03"] = dict(
    text="Coq theorems over the codec composition (scanner reads back exactly the encoder's output; raw parameters are cut out verbatim; parse . encode = id for "
         "valid-UTF-8 strings and well-formed numbers) (Props/C03.v); tie: real client <-> real service on filesystem unix, abstract unix, TCP and bridge transports "
         "with JSON-equality of what the handler reads / the client receives as independent oracle, continues bits on all replies but the last.",
    ref="DESIGN.md §6 C03", technique="Coq proof (codec round trip) + differential correspondence on four transports")
CHECKS["C12"] = dict(
    text="Coq theorems: ReplyError writes iff the name has a non-empty interface part other than org.varlink.service, refused attempts write nothing, the reply "
         "carries name and parameters verbatim, the four standard helpers carry their argument (Props/C12.v); tie: error-name grammar x parameter objects, real "
         "service and real client, refusal made observable by a marker reply.",
    ref="DESIGN.md §6 C12", technique="Coq proof (string lemmas on the last dot; codec) + differential correspondence")
CHECKS["C13"] = dict(
    text="Coq theorems over the registry state machine: names = org.varlink.service followed by the successful registrations in order, each once; refused "
         "registrations (duplicate, while listening) leave the state unchanged; GetInfo / GetInterfaceDescription report exactly the registered values "
         "(Props/C13.v); the 'listening' flag is derived in a second model (RegLife) from running flag and connection counter along the service's life cycle; "
         "tie: operation histories (incl. registration while a stopped service drains, concurrent duplicate registration, Listen vs Bind+DoListen, calls before and "
         "after registrations) on a real Service object observed through HandleMessage and through the client helpers, plus Resolver helpers.",
    ref="DESIGN.md §6 C13, §10.4", technique="Coq proof (invariant by induction over operation sequences) + differential correspondence")

CHECKS["C11"] = dict(
    text="Coq theorems: Send is refused iff more&oneway or more&upgrade (for every flag word), nothing is written then, otherwise the frame carries exactly the "
         "requested bits; receive returns the decoding of exactly the next complete frame for every stream, segmentation and cut, UnexpectedEOF when the stream "
         "ends before a NUL (Props/C11.v); tie: all flag combinations and reply streams cut at every byte offset against the real client on a scripted connection.",
    ref="DESIGN.md §6 C11", technique="Coq proof (case analysis on flags; reader stream lemma + codec) + differential correspondence with fault injection at every offset")
CHECKS["C14"] = dict(
    text="Coq theorems over an interleaving model of Bind/Listen/DoListen/Shutdown/teardown/handlers: counter = WaitGroup = live handlers in every reachable "
         "state, no connection arriving after a completed Shutdown is served, nil when Shutdown found the service waiting, bounded-step return once connections "
         "ended, reusable afterwards, second Bind refused (Props/C14.v); tie: histories on a real Service with a controlled listener placing Shutdown before, "
         "during and after Accept's decision.",
    ref="DESIGN.md §6 C14", technique="Coq proof (reachability invariants + decreasing measure over an interleaving semantics) + differential correspondence on controlled schedules")
CHECKS["C15"] = dict(
    text="Coq theorems on the same transition system: a timeout exit implies conncounter = 0 at the expiry, an expiry with open connections loops, without a "
         "timeout no expiry step exists, every exit closes the listener (Props/C15.v); tie: injected expiries in histories plus real-clock runs with one-sided margins "
         "and endpoint-release checks (dial fails, re-bind succeeds at once).",
    ref="DESIGN.md §6 C15", technique="Coq proof (reachability invariants) + differential correspondence with injected expiries + real-clock sampling")
CHECKS["C19"] = dict(
    text="Coq theorems: parsing is total, the three refusals, service and client agree on protocol and address for every accepted string (tail after ';' ignored), "
         "'@' selects the abstract namespace, filesystem effects over an abstract namespace map, a failed bind changes nothing (Props/C19.v); tie: address grammar x "
         "Bind/Listen/DoListen/Shutdown/NewConnection histories in a scratch directory under recover().",
    ref="DESIGN.md §6 C19", technique="Coq proof (case analysis on the splits; state machine over an abstract namespace) + differential correspondence")

CHECKS["C16"] = dict(
    text="Translator + Coq obligation: the access table (function, field, read/write, mutex held) is regenerated from /repo's service.go and ctxio/conn.go on every "
         "run and must satisfy the decidable lock discipline table_ok, which is proved to imply that every conflicting pair is ordered by the mutex or by one of three "
         "protocol arguments (Props/C16.v; Lifecycle invariant I1 for the registry guard, Ctxio T1 for the helper goroutines); dynamic oracle: all pairs/triples of "
         "API operations against running Listen/DoListen with clients under the Go race detector.",
    ref="DESIGN.md §6 C16", technique="Coq proof over a table regenerated from source by a go/ast translator + race-detector runs",
    note="The Go memory model is not formalised (SC race freedom of the access protocol => DRF is the standard argument). ")
CHECKS["C17"] = dict(
    text="Coq theorems over an interleaving model of one context-aware operation (caller, helper goroutine, canceller, peer): join on every return, bounded-step "
         "return once the context is done on deadline-honouring transports, no stale deadline can fail a live operation, byte accounting; the pre-fix bridge behaviour "
         "is refuted (Props/C17.v); tie: 4 transports x 3 operations x cancel/deadline x 4 cancellation instants on the real code with latency, goroutine and "
         "follow-up-integrity observations; outcome classes compared with the model's exhaustive outcome sets. A second model (Duplex) composes a read and a write "
         "on one connection; non-interference is proved for the parameters that a go/ast translator (goctxio) re-derives from ctxio/conn.go on every run and Coq "
         "checks (each operation sets only its own deadline, owns its channel, joins its helper); full-duplex and client-level context scenarios on real sockets.",
    ref="DESIGN.md §6 C17, §10.4", technique="Coq proof (reachability invariants + decreasing measure, non-interference of duplex use) + facts regenerated from source by a go/ast translator + differential correspondence on real transports")
CHECKS["C20"] = dict(
    text="Coq theorems characterising the selected descriptor (activation_fd_spec, first match, range), the fallback in every other environment, and strconv.Atoi "
         "(Props/C20.v); tie: one child process per environment of the (in the thorough tier full) product of LISTEN_PID x LISTEN_FDS x LISTEN_FDNAMES x descriptor "
         "kinds, each binding a real Service.",
    ref="DESIGN.md §6 C20", technique="Coq proof (case analysis; Atoi lemmas) + exhaustive differential correspondence over the environment product")

CHECKS["C07"] = dict(
    text="Translation validation per run: every sampled description of the stated domain goes through the real generator binary twice (determinism); the output "
         "is compiled and vetted against /repo's varlink package and a program prints the reported name and description; plus a Gallina model of generateTemplate "
         "validated byte-for-byte (through gofmt) against the generator, with theorems on totality, package name, raw-string round trip of name/description and the "
         "conversion rule (Props/C07.v when present).",
    ref="DESIGN.md §6 C07", technique="translation validation by the Go toolchain per generated program + Coq proof about a validated generator model",
    cat="translation_validation",
    note="'compiles and type-checks' as a whole is decided per sampled program by the Go compiler, not by a theorem. ")
CHECKS["C08"] = dict(
    text="Per sampled description the generated package is compiled with a generated test program: generated client stubs talk to the generated dispatcher over a "
         "unix socket with random typed values; the frames on the wire, the values the service implementation receives and the values / typed errors the client "
         "returns are compared with the varlink JSON mapping read directly from the description (single replies, more-sequences, oneway, typed errors, "
         "MethodNotImplemented, MethodNotFound, InvalidParameter, flags).",
    ref="DESIGN.md §6 C08", technique="translation validation: execution of generated code against the JSON mapping derived from the description",
    cat="translation_validation",
    note="What the generated Go code does is Go semantics: connected to the specification by execution only. ")

NOT_YET = {
}

ALL = ["C%02d" % i for i in range(1, 21)]


def main():
    checks = []
    for pid in ALL:
        if pid not in CHECKS:
            continue
        c = CHECKS[pid]
        checks.append(dict(
            property_id=pid,
            quick_cmd="./check %s --tier quick" % pid,
            thorough_cmd="./check %s --tier thorough" % pid,
            evidence_file="evidence/%s.json" % pid,
            replay_cmd_template="./check %s --replay {path}" % pid,
            engine="coq-model+correspondence",
            level_claimed=dict(category=c.get("cat", "proof"), text=c["text"], design_ref=c["ref"]),
            level_note=c.get("note", "") + TRUST,
            technique=c["technique"]))
    na = [dict(property_id=p, reason=NOT_YET.get(p, "check not built yet in this revision of /verif (claimed in DESIGN.md; see build order §8)"))
          for p in ALL if p not in CHECKS]
    m = dict(
        version=1,
        setup_cmd="./setup.sh",
        hooks=dict(guard="verif",
                   enable="go build -tags verif -overlay harness/overlay/overlay.json (add-only accessor file injected into package varlink; no hook is committed in /repo)",
                   baseline_off_cmd="cd /repo && go test -vet=off -count=1 ./varlink/... ./cmd/varlink-go-interface-generator/",
                   source_commits=[], add_only=True),
        engines=[dict(name="coq-model+correspondence", path="coq/ ocaml/ harness/ lib/", serves_properties=sorted(CHECKS),
                      kind_free_text="Coq 8.16 development (executable Gallina models + theorems), extracted OCaml driver, Go correspondence harness built against /repo, python orchestrator")],
        checks=checks,
        notes="Every check: (1) rebuilds/re-checks the Coq obligations incl. Print Assumptions, (2) rebuilds the Go harness against /repo's working tree and "
              "compares implementation and model on generated cases, (3) evaluates the property's specification oracle on the implementation's outputs. "
              "known_findings.json lists recorded defects; fix: commits in /repo are listed there as state=fixed.",
        not_applicable=na)
    json.dump(m, open(os.path.join(ROOT, "MANIFEST.json"), "w"), indent=1)


if __name__ == "__main__":
    main()
