# lifegen.py — life-cycle histories for h_life (C14, C15, C16) and the direct reading of the statements.
import itertools


class Sim:
    """coarse bookkeeping used to generate sensible histories and to read the statements"""

    def __init__(self):
        self.bound = False
        self.serving = False      # a serving call has been started and has not been observed to return
        self.tmo = False
        self.shutdown = False     # Shutdown issued on this binding
        self.open = set()         # connections accepted and still open
        self.nconn = 0
        self.held = None
        self.gated = False
        self.returned = None


def history(rng, timeout, length, placements=True):
    """-> list of op strings"""
    s = Sim()
    pre = []
    if placements and rng.random() < 0.1:
        # Shutdown lands after Bind and before the serving call has started: the serving call must still return
        pre = ["bind", "shutdown", "dolisten %d" % (1 if timeout else 0), "wait-return", "active", "running", "closed", "listener-nil"]
        if rng.random() < 0.3:
            return pre
    if placements and rng.random() < 0.06:
        # a serving call on a service that is not bound fails and must leave the object usable
        pre += ["dolisten %d" % (1 if timeout else 0), "wait-return", "running", "realbind 1", "running", "active"]
        return pre
    ops = pre + ["bind", "dolisten %d" % (1 if timeout else 0), "wait-accept"]
    s.bound = s.serving = True
    s.tmo = timeout
    for _ in range(length):
        choices = []
        if s.serving and not s.shutdown and s.held is None and not s.gated:
            choices += ["connect"] * 3
            if placements:
                choices += ["hold-connect", "gate-shutdown"]
            if s.tmo:
                choices += ["expire"] * 2
            choices += ["realbind", "listen-again"]
        if s.open:
            choices += ["call", "close", "close"]
            if s.held is None and not s.gated:
                choices += ["badcall"]
        if s.serving and not s.shutdown and s.held is None:
            choices += ["shutdown"]
        if s.serving and s.shutdown and s.held is None:
            choices += ["connect-late"]
        choices += ["active"]
        if not choices:
            break
        c = rng.choice(choices)
        if c == "connect":
            ops += ["connect", "wait-accept"]
            s.open.add(s.nconn)
            s.nconn += 1
        elif c == "hold-connect":
            # Shutdown lands between Accept's decision and its return
            ops += ["hold", "connect", "shutdown", "release"]
            s.open.add(s.nconn)
            s.nconn += 1
            s.shutdown = True
        elif c == "gate-shutdown":
            # Shutdown lands before Accept is (re-)entered: needs one loop iteration first
            ops += ["gate", "connect", "wait-accept", "shutdown", "open-gate"]
            s.open.add(s.nconn)
            s.nconn += 1
            s.shutdown = True
            s.gated = False
        elif c == "expire":
            ops += ["expire"]
            if not s.open:
                ops += ["wait-return", "closed", "listener-nil", "running", "connect"]
                s.nconn += 1
                s.serving = False
                break
        elif c == "realbind":
            ops += ["realbind 1", "running"]
        elif c == "listen-again":
            ops += ["listen 1 0", "running", "listener-nil"]
        elif c == "call":
            ops += ["call %d" % rng.choice(sorted(s.open))]
        elif c == "badcall":
            # handler error: the service ends the connection itself and must account for it
            i = rng.choice(sorted(s.open))
            s.open.discard(i)
            ops += ["%s %d" % (rng.choice(["badcall", "badcall", "badcall-keep"]), i), "active"]
        elif c == "close":
            i = rng.choice(sorted(s.open))
            s.open.discard(i)
            ops += ["close %d" % i, "active"]
        elif c == "shutdown":
            ops += ["shutdown"]
            s.shutdown = True
        elif c == "connect-late":
            ops += ["connect"]
            ops += ["call %d" % s.nconn]
            s.nconn += 1
        elif c == "active":
            ops += ["active"]
    if s.serving and s.open and s.held is None and not s.gated and placements and rng.random() < 0.12:
        # the serving context is cancelled while a client has stalled in the middle of a frame (right behind a complete call):
        # every connection must end, accounted for, and the serving call returns after Shutdown
        ops += ["stall %d" % rng.choice(sorted(s.open)), "ctxcancel", "active"]
        s.open = set()
        if not s.shutdown:
            ops += ["shutdown"]
        ops += ["wait-return", "active", "running", "closed", "listener-nil"]
        return ops
    if s.serving:
        if not s.shutdown:
            ops += ["shutdown"]
        for i in sorted(s.open):
            ops += ["call %d" % i] if rng.random() < 0.3 else []
            ops += ["close %d" % i]
        ops += ["wait-return", "active", "running", "closed", "listener-nil"]
        if rng.random() < 0.15:
            # a serving call without a new Bind is refused and leaves the object usable
            ops += ["dolisten 0", "wait-return", "running"]
        if rng.random() < 0.5:
            # reusable
            ops += ["bind", "dolisten 0", "wait-accept", "connect", "wait-accept", "call %d" % s.nconn, "close %d" % s.nconn, "shutdown", "wait-return", "active"]
    return ops


def read_statement(ops, res):
    """C14 / C15 read directly on a history's results. -> error text or None"""
    if ops and ops[0].startswith("overlap-drain"):
        return None if res == ["ok"] else "two serving calls on one object, the first one draining: " + " ".join(res).replace("_", " ")
    if len(ops) != len(res):
        return "history has %d operations but %d results" % (len(ops), len(res))
    open_, accepted = set(), set()
    shutdown = False
    serving = False
    tmo = False
    conn_ids = []
    late = set()
    timed_out = False
    for i, (o, r) in enumerate(zip(ops, res)):
        f = o.split()
        if r.startswith("PANIC"):
            return "panic: " + r
        if f[0] == "dolisten":
            serving, shutdown, tmo, timed_out = True, False, f[1] == "1", False
        elif f[0] == "connect":
            cid = len(conn_ids)
            conn_ids.append(r)
            if shutdown or timed_out:
                late.add(cid)
                # a connection arriving after Shutdown has returned / after the timeout exit is refused or at least never served
            elif r.startswith("c"):
                accepted.add(cid)
                open_.add(cid)
        elif f[0] == "call":
            cid = int(f[1])
            if cid in late and r == "ok":
                return "op %d: connection %d arrived after Shutdown returned / after the timeout exit and was served" % (i, cid)
            if cid in open_ and cid not in late and r != "ok":
                return "op %d: accepted connection %d was not served (%s)" % (i, cid, r)
        elif f[0] == "stall":
            cid = int(f[1])
            if cid in open_ and cid not in late and r != "ok":
                return "op %d: accepted connection %d was not served (%s)" % (i, cid, r)
        elif f[0] == "ctxcancel":
            if r != "ended":
                return "op %d: the serving context was cancelled but connections are still being held (%s): serving cannot drain" % (i, r)
            open_ = set()
        elif f[0] in ("badcall", "badcall-keep"):
            cid = int(f[1])
            if cid in open_ and cid not in late and r != "ended":
                return "op %d: a frame that does not decode must end connection %d (%s)" % (i, cid, r)
            open_.discard(cid)
        elif f[0] == "close":
            open_.discard(int(f[1]))
        elif f[0] == "shutdown":
            if r != "nil":
                return "op %d: Shutdown returned an error" % i
            shutdown = True
        elif f[0] == "expire":
            if open_ and r != "looped":
                return "op %d: the idle timeout stopped the service while connections %s were open (%s)" % (i, sorted(open_), r)
            if not open_ and not shutdown and r != "returned":
                return "op %d: no connection open, the expiry must stop the service (%s)" % (i, r)
            if r == "returned":
                timed_out = True
        elif f[0] == "wait-return":
            if r == "noreturn":
                return "op %d: the serving call did not return although Shutdown was issued / the timeout fired and all connections had ended" % i
            if timed_out and r != "ret:timeout":
                return "op %d: a timeout exit must report the dedicated timeout error (%s)" % (i, r)
            if shutdown and not timed_out and r != "ret:nil":
                return "op %d: Shutdown found the service waiting for a connection, the serving call must return nil (%s)" % (i, r)
            serving = False
        elif f[0] == "active":
            if not serving and r != "0":
                return "op %d: %s connections still accounted for after serving ended" % (i, r)
            if r != str(len(open_)) and all(x.split()[0] not in ("hold", "gate") for x in ops):
                return "op %d: %s connections accounted for, %d are open" % (i, r, len(open_))
        elif f[0] == "realbind":
            if serving and not shutdown and r != "err":
                return "op %d: a second Bind during serving was not refused" % i
            if not serving and f[1] == "1" and r != "ok":
                return "op %d: no serving call is in progress but the service object cannot be bound again (%s)" % (i, r)
        elif f[0] == "listen":
            if serving and r != "refused":
                return "op %d: a second Listen during serving was not refused" % i
        elif f[0] == "running":
            if not serving and r != "F":
                return "op %d: no serving call is in progress but the service still counts as running" % i
            if i > 0 and ops[i - 1].split()[0] in ("realbind", "listen") and serving and not shutdown and r != "T":
                return "op %d: a refused Bind/Listen stopped the running service" % i
        elif f[0] == "listener-nil":
            if i > 1 and ops[i - 2].split()[0] == "listen" and serving and not shutdown and r != "F":
                return "op %d: a refused Listen cleared the running service's listener" % i
        elif f[0] == "closed":
            if not serving and r != "T":
                return "op %d: serving has ended but the listening endpoint was not released" % i
    return None
