# stubgen.py — for C08: Go types / literals / expected JSON for values of IDL types, random values, and the
# generated test program that drives generated client stubs against a generated service dispatcher.
import json

BUILTIN_GO = {"b": "bool", "i": "int64", "f": "float64", "s": "string", "o": "json.RawMessage"}


def title(n):
    return n[:1].upper() + n[1:]


def go_type(t, tagged, pkg):
    """the generator's writeType: tagged (json=true) inside alias declarations, untagged in stub signatures"""
    k = t[0]
    if k in BUILTIN_GO:
        return BUILTIN_GO[k]
    if k == "E":
        return "string"
    if k == "A":
        return "[]" + go_type(t[1], tagged, pkg)
    if k == "D":
        return "map[string]" + go_type(t[1], tagged, pkg)
    if k == "Q":
        return "*" + go_type(t[1], tagged, pkg)
    if k == "N":
        return pkg + "." + t[1]
    if k == "S":
        if not t[1]:
            return "struct{}"
        fs = []
        for n, ft in t[1]:
            f = "%s %s" % (title(n), go_type(ft, tagged, pkg))
            if tagged:
                f += " `json:\"%s%s\"`" % (n, ",omitempty" if ft[0] == "Q" else "")
            fs.append(f)
        return "struct { " + "; ".join(fs) + " }"
    raise ValueError(t)


def go_string(s):
    out = '"'
    for ch in s:
        o = ord(ch)
        if ch in '"\\':
            out += "\\" + ch
        elif o < 0x20 or o == 0x7f:
            out += "\\x%02x" % o
        else:
            out += ch
    return out + '"'


def go_lit(t, v, tagged, pkg, aliases):
    """Go expression of type go_type(t) with value v"""
    k = t[0]
    if k == "b":
        return "true" if v else "false"
    if k == "i":
        return "int64(%d)" % v
    if k == "f":
        return "float64(%s)" % repr(float(v))
    if k == "s" or k == "E":
        return go_string(v)
    if k == "o":
        return "json.RawMessage(%s)" % go_string(json.dumps(v, separators=(",", ":"), ensure_ascii=False))
    if k == "A":
        return "%s{%s}" % (go_type(t, tagged, pkg), ", ".join(go_lit(t[1], x, tagged, pkg, aliases) for x in v))
    if k == "D":
        return "%s{%s}" % (go_type(t, tagged, pkg), ", ".join("%s: %s" % (go_string(kk), go_lit(t[1], x, tagged, pkg, aliases)) for kk, x in sorted(v.items())))
    if k == "Q":
        if v is None:
            return "(%s)(nil)" % go_type(t, tagged, pkg)
        return "ptr(%s)" % go_lit(t[1], v, tagged, pkg, aliases)
    if k == "S":
        return "%s{%s}" % (go_type(t, tagged, pkg), ", ".join("%s: %s" % (title(n), go_lit(ft, v[n], tagged, pkg, aliases)) for n, ft in t[1]))
    if k == "N":
        body = aliases[t[1]]
        if body[0] == "S":
            return "%s.%s{%s}" % (pkg, t[1], ", ".join("%s: %s" % (title(n), go_lit(ft, v[n], True, pkg, aliases)) for n, ft in body[1]))
        return "%s.%s(%s)" % (pkg, t[1], go_lit(body, v, True, pkg, aliases))
    raise ValueError(t)


def to_json(t, v, aliases):
    """the varlink JSON mapping of value v of type t (python object ready for json equality)"""
    k = t[0]
    if k in "bis" or k == "E":
        return v
    if k == "f":
        return float(v)
    if k == "o":
        return v
    if k == "A":
        return [to_json(t[1], x, aliases) for x in v]
    if k == "D":
        return {kk: to_json(t[1], x, aliases) for kk, x in v.items()}
    if k == "Q":
        return None if v is None else to_json(t[1], v, aliases)
    if k == "S":
        out = {}
        for n, ft in t[1]:
            if ft[0] == "Q" and v[n] is None:
                continue          # absent optional: the member is omitted
            out[n] = to_json(ft, v[n], aliases)
        return out
    if k == "N":
        return to_json(aliases[t[1]], v, aliases)
    raise ValueError(t)


STRS = ["", "a", "hello world", "q\"uo\\te", "tab\there", "caf\u00e9 \u65e5\u672c", "<&>", "line\nbreak", "\u2028", "nul\x00byte"]
INTS = [0, 1, -1, 42, 2**53 + 1, -(2**63), 2**63 - 1, 1000000007]
FLOATS = [0.0, 1.5, -2.25, 1e21, 3.0, 0.1, 1e-7, 123456789.125]
OBJS = [{}, {"a": 1}, [1, "x", None], "str", 7, None, {"nested": {"k": [True, False]}}, 2**60]


def rand_value(rng, t, aliases, depth=3):
    k = t[0]
    if k == "b":
        return rng.random() < 0.5
    if k == "i":
        return rng.choice(INTS)
    if k == "f":
        return rng.choice(FLOATS)
    if k == "s":
        return rng.choice(STRS)
    if k == "E":
        return rng.choice(t[1])
    if k == "o":
        return rng.choice(OBJS)
    if k == "A":
        return [rand_value(rng, t[1], aliases, depth - 1) for _ in range(rng.choice([0, 1, 2, 3]) if depth > 0 else 0)]
    if k == "D":
        return {kk: rand_value(rng, t[1], aliases, depth - 1) for kk in rng.sample(["k", "a b", "", "z", "\u00e9"], rng.choice([0, 1, 2, 3]) if depth > 0 else 0)}
    if k == "Q":
        return None if rng.random() < 0.4 else rand_value(rng, t[1], aliases, depth - 1)
    if k == "S":
        return {n: rand_value(rng, ft, aliases, depth - 1) for n, ft in t[1]}
    if k == "N":
        return rand_value(rng, aliases[t[1]], aliases, depth)
    raise ValueError(t)


def c08_type(rng, depth, aliases, allow_maybe=True):
    """types for C08: alias references only to aliases with struct / builtin / array / enum bodies"""
    r = rng.random()
    if depth <= 0 or r < 0.4:
        if aliases and rng.random() < 0.3:
            return ("N", rng.choice(sorted(aliases)))
        return (rng.choice("bifsso"),)
    r = rng.random()
    if r < 0.2:
        return ("A", c08_type(rng, depth - 1, aliases))
    if r < 0.33:
        return ("D", c08_type(rng, depth - 1, aliases))
    if r < 0.52 and allow_maybe:
        return ("Q", c08_type(rng, depth - 1, aliases, allow_maybe=False))
    if r < 0.85:
        return c08_struct(rng, depth - 1, aliases)
    return ("E", rng.sample(["on", "off", "idle", "busy"], rng.choice([1, 2, 3])))


FIELD_POOL = ["a", "b", "x", "foo", "f_1", "name", "value", "id", "state", "type", "func", "in", "out", "err", "flags", "m", "call"]


def c08_struct(rng, depth, aliases, maxf=3):
    names = rng.sample(FIELD_POOL, rng.choice([0, 1, 1, 2, 3]))
    return ("S", [(nm, c08_type(rng, depth, aliases)) for nm in names])


def c08_idl(rng):
    aliases = {}
    members = []
    for nm in rng.sample(["T", "U", "Cfg"], rng.choice([0, 1, 2])):
        body = rng.choice([c08_struct(rng, 1, aliases), ("i",), ("A", ("s",)), ("E", ["x", "y"]), c08_struct(rng, 2, aliases)])
        aliases[nm] = body
        members.append(("T", nm, "", body))
    for nm in rng.sample(["M", "Ping", "Get9"], rng.choice([1, 2, 3])):
        members.append(("M", nm, "", c08_struct(rng, 2, aliases), c08_struct(rng, 2, aliases)))
    members.append(("M", "Unimpl", "", ("S", []), ("S", [])))
    # always: a method all of whose inputs are optional (nothing HAS to be sent, but what is sent must still decode)
    members.append(("M", "AllOpt", "", ("S", [("limit", ("Q", ("i",))), ("tag", ("Q", ("s",)))]), ("S", [("n", ("Q", ("i",)))])))
    for nm in rng.sample(["E1", "NotFound"], rng.choice([1, 2])):
        members.append(("X", nm, "", rng.choice([None, c08_struct(rng, 1, aliases), c08_struct(rng, 2, aliases)])))
    iface = rng.choice(["a.b", "org.example.more", "com.example.a-b.c1", "io.Test.x"])
    return (iface, "", members), aliases


def program(idl, aliases, pkg, rng, calls):
    """Go source of the test program. calls: list of dict(method, flags, in, outs(list of out values), error(None|(name, value)))"""
    iface, _, members = idl
    methods = {m[1]: m for m in members if m[0] == "M"}
    errors = {m[1]: m for m in members if m[0] == "X"}
    L = []
    L.append("package main\n")
    L.append('import (\n\t"bufio"\n\t"context"\n\t"encoding/hex"\n\t"encoding/json"\n\t"errors"\n\t"fmt"\n\t"net"\n\t"os"\n\t"sync"\n\t"time"\n\n\t"github.com/varlink/go/varlink"\n\tpkg "scratch/%s"\n)\n' % pkg)
    L.append("func ptr[T any](v T) *T { return &v }\n")
    L.append("var _ = json.RawMessage{}\nvar _ = errors.New\nvar _ = bufio.NewReader\nvar mu sync.Mutex\nvar handlerLog []string\nvar script = map[string]int{}\n")
    L.append("type rec struct {\n\tnet.Conn\n\tmu sync.Mutex\n\tsent, recv []byte\n}\n")
    L.append("func (r *rec) Write(p []byte) (int, error) { r.mu.Lock(); r.sent = append(r.sent, p...); r.mu.Unlock(); return r.Conn.Write(p) }\n")
    L.append("func (r *rec) Read(p []byte) (int, error) { n, err := r.Conn.Read(p); r.mu.Lock(); r.recv = append(r.recv, p[:n]...); r.mu.Unlock(); return n, err }\n")
    L.append("func (r *rec) take() (string, string) { r.mu.Lock(); defer r.mu.Unlock(); s, v := hex.EncodeToString(r.sent), hex.EncodeToString(r.recv); r.sent, r.recv = nil, nil; return s, v }\n")
    L.append("func js(v ...interface{}) string { if len(v) == 0 { return \"[]\" }; b, err := json.Marshal(v); if err != nil { return \"MARSHALERR \" + err.Error() }; return string(b) }\n")
    L.append("func outl(f ...interface{}) { for i, x := range f { if i > 0 { fmt.Print(\"\\t\") }; fmt.Print(x) }; fmt.Println() }\n")
    L.append("func cls(err error) string {\n\tif err == nil { return \"nil\" }\n\tswitch e := err.(type) {\n"
             "\tcase *varlink.MethodNotImplemented: return \"MethodNotImplemented:\" + e.Method\n\tcase *varlink.MethodNotFound: return \"MethodNotFound:\" + e.Method\n"
             "\tcase *varlink.InvalidParameter: return \"InvalidParameter:\" + e.Parameter\n\tcase *varlink.InterfaceNotFound: return \"InterfaceNotFound:\" + e.Interface\n")
    for en, em in errors.items():
        L.append("\tcase *pkg.%s: return \"%s:\" + js(*e)\n" % (en, en))
    L.append("\tcase *varlink.Error: return \"Error:\" + e.Name\n\t}\n\treturn \"other:\" + err.Error()\n}\n")
    L.append("type impl struct{ pkg.VarlinkInterface }\n")
    # handlers: reply according to the scripted call that is in progress (index kept per method)
    by_method = {}
    for ci, c in enumerate(calls):
        by_method.setdefault(c["method"], []).append((ci, c))
    for mn, m in methods.items():
        if mn == "Unimpl":
            continue
        ins = m[3][1]
        sig = "".join(", %s_ %s" % (n, go_type(ft, False, "pkg")) for n, ft in ins)
        L.append("func (i *impl) %s(ctx context.Context, c pkg.VarlinkCall%s) error {\n" % (mn, sig))
        L.append("\tmu.Lock()\n\thandlerLog = append(handlerLog, fmt.Sprintf(\"%s\\t%%v\\t%%v\\t%%v\\t%%s\", c.WantsMore(), c.IsOneway(), c.WantsUpgrade(), js(%s)))\n\tk := script[\"%s\"]\n\tscript[\"%s\"]++\n\tmu.Unlock()\n"
                 % (mn, ", ".join(n + "_" for n, _ in ins), mn, mn))
        L.append("\tswitch k {\n")
        for k, (ci, c) in enumerate(by_method.get(mn, [])):
            L.append("\tcase %d:\n" % k)
            if c["error"] is not None:
                en, ev = c["error"]
                et = errors[en][3]
                args = "".join(", %s" % go_lit(ft, ev[n], False, "pkg", aliases) for n, ft in (et[1] if et else []))
                L.append("\t\treturn c.Reply%s(ctx%s)\n" % (en, args))
            else:
                outs = c["outs"]
                for j, ov in enumerate(outs):
                    args = "".join(", %s" % go_lit(ft, ov[n], False, "pkg", aliases) for n, ft in m[4][1])
                    if j < len(outs) - 1:
                        L.append("\t\tc.Continues = true\n\t\tif err := c.Reply%s(ctx%s); err != nil { return err }\n" % (mn, args))
                    else:
                        L.append("\t\tc.Continues = false\n\t\treturn c.Reply%s(ctx%s)\n" % (mn, args))
        L.append("\t}\n\treturn c.Reply%s(ctx%s)\n}\n" % (mn, "".join(", %s" % go_lit(ft, rand_value(rng, ft, aliases, 1), False, "pkg", aliases) for n, ft in m[4][1])))
    L.append("func main() {\n\tdir, _ := os.MkdirTemp(\"\", \"vstub\")\n\tdefer os.RemoveAll(dir)\n\tsvc, _ := varlink.NewService(\"v\", \"p\", \"1\", \"u\")\n"
             "\tsvc.RegisterInterface(pkg.VarlinkNew(&impl{}))\n\tctx := context.Background()\n\taddr := \"unix:\" + dir + \"/s\"\n"
             "\tif err := svc.Bind(ctx, addr); err != nil { fmt.Println(\"X bind\", err); return }\n\tdone := make(chan error, 1)\n\tgo func() { done <- svc.DoListen(ctx, 0) }()\n"
             "\traw, err := net.Dial(\"unix\", dir+\"/s\")\n\tif err != nil { fmt.Println(\"X dial\", err); return }\n\tr := &rec{Conn: raw}\n\tconn := varlink.VerifNewConnection(r)\n"
             "\tcctx, cancel := context.WithTimeout(ctx, 5*time.Second)\n\tdefer cancel()\n")
    L.append("\tfmt.Println(\"NAME\", hex.EncodeToString([]byte(pkg.VarlinkNew(&impl{}).VarlinkGetName())))\n")
    for ci, c in enumerate(calls):
        mn = c["method"]
        L.append("\t{\n")
        if mn == "@unknown":
            L.append("\t\tvar out json.RawMessage\n\t\terr := conn.Call(cctx, \"%s.NoSuchMethod\", nil, &out)\n\t\ts, v := r.take()\n\t\toutl(\"CALL\", %d, s, v, \"-\", cls(err))\n" % (iface, ci))
        elif mn == "@badparams":
            arg = "nil" if c["raw"] == "-" else "json.RawMessage(`%s`)" % c["raw"]
            L.append("\t\tvar out json.RawMessage\n\t\terr := conn.Call(cctx, \"%s.%s\", %s, &out)\n\t\ts, v := r.take()\n\t\toutl(\"CALL\", %d, s, v, \"-\", cls(err))\n"
                     % (iface, c["target"], arg, ci))
        else:
            m = methods[mn]
            args = "".join(", %s" % go_lit(ft, c["in"][n], False, "pkg", aliases) for n, ft in m[3][1])
            outs = m[4][1]
            outvars = "".join("o%d, " % j for j in range(len(outs)))
            if c["flags"] == 0 and len(c.get("outs") or [None]) == 1:
                L.append("\t\t%serr := pkg.%s().Call(cctx, conn%s)\n\t\ts, v := r.take()\n\t\toutl(\"CALL\", %d, s, v, js(%s), cls(pkg.Dispatch_Error(err)))\n"
                         % (outvars, mn, args, ci, ", ".join("o%d" % j for j in range(len(outs)))))
            else:
                L.append("\t\trecv, err := pkg.%s().Send(cctx, conn, %d%s)\n\t\tif err != nil { s, v := r.take(); outl(\"CALL\", %d, s, v, \"-\", cls(err)) } else {\n"
                         % (mn, c["flags"], args, ci))
                if c["flags"] & 2:
                    L.append("\t\t\t_ = recv\n\t\t\ttime.Sleep(30 * time.Millisecond)\n\t\t\ts, v := r.take()\n\t\t\toutl(\"CALL\", %d, s, v, \"-\", \"oneway\")\n\t\t}\n" % ci)
                else:
                    L.append("\t\t\tfor {\n\t\t\t\t%sfl, err := recv(cctx)\n\t\t\t\ts, v := r.take()\n\t\t\t\toutl(\"CALL\", %d, s, v, js(%s), cls(err), fl)\n\t\t\t\tif err != nil || fl&varlink.Continues == 0 { break }\n\t\t\t}\n\t\t}\n"
                             % (outvars, ci, ", ".join("o%d" % j for j in range(len(outs)))))
        L.append("\t}\n")
    L.append("\tconn.Close()\n\tsvc.Shutdown()\n\t<-done\n\tmu.Lock()\n\tfor _, l := range handlerLog { outl(\"HANDLER\", l) }\n\tmu.Unlock()\n}\n")
    return "".join(L)
