(* non-vacuity: a concrete text is a rendering of a well-formed tree, and it parses *)
Example C05_example_renders :
  exists d s, Renders d s /\ wf_idl d = true /\ exists d', parse s = POk d'.
Proof.
  exists (mkIdl [97;46;98] [] [] [MMethod [77] [] (TStruct []) (TStruct [])]).
  exists ([] ++ kw_interface ++ [32] ++ [97;46;98] ++ ([10] ++ (kw_method ++ [32] ++ [77] ++ [] ++ ([40] ++ [] ++ [41]) ++ [] ++ [45;62] ++ [] ++ ([40] ++ [] ++ [41])) ++ []) ++ []).
  split; [| split; [vm_compute; reflexivity | eexists; vm_compute; reflexivity]].
  apply (R_idl (mkIdl [97;46;98] [] [] [MMethod [77] [] (TStruct []) (TStruct [])]) [] [32]
               ([10] ++ (kw_method ++ [32] ++ [77] ++ [] ++ ([40] ++ [] ++ [41]) ++ [] ++ [45;62] ++ [] ++ ([40] ++ [] ++ [41])) ++ []) []).
  - constructor.
  - unfold gap1; split; [apply (gap_cons [32] []); constructor | discriminate].
  - cbn [i_name i_members].
    apply (RMs_cons [97;46;98] [10] (MMethod [77] [] (TStruct []) (TStruct []))
                    (kw_method ++ [32] ++ [77] ++ [] ++ ([40] ++ [] ++ [41]) ++ [] ++ [45;62] ++ [] ++ ([40] ++ [] ++ [41])) [] []).
    + apply (gap_cons [10] []); constructor.
    + intros _; discriminate.
    + apply (RM_method [77] [] (TStruct []) (TStruct []) [32] [] [] [] ([40] ++ [] ++ [41]) ([40] ++ [] ++ [41])).
      * reflexivity.
      * unfold gap1; split; [apply (gap_cons [32] []); constructor | discriminate].
      * reflexivity.
      * reflexivity.
      * apply (R_struct0 []); constructor.
      * apply (R_struct0 []); constructor.
      * constructor.
      * constructor.
      * constructor.
    + constructor.
  - constructor. constructor.
Qed.
Print Assumptions C05_example_renders.
