# gengen.py — descriptions in the generator's domain (C07 / C08): resolvable references, distinct field names,
# struct-typed method parameters, no member named like the generator's own identifiers.
import idlgen as G

GO_KEYWORDS = ["type", "func", "range", "var", "map", "chan", "go", "if", "for", "switch", "select", "case", "default", "return", "package", "import",
               "interface", "struct", "const", "defer", "else", "break", "continue", "fallthrough", "goto"]
LOCALS = ["in", "out", "err", "ctx", "c", "flags", "m", "s", "call", "conn", "receive", "e", "methodname", "param", "err_", "string", "error", "nil", "true", "len",
          "json", "fmt", "context", "varlink", "int64", "bool"]
FIELDS = ["a", "b", "x", "foo", "f_1", "bB9_", "name", "value", "id", "state"] + GO_KEYWORDS[:12] + LOCALS[:14]


def rand_ty(rng, depth, aliases, allow_maybe=True):
    r = rng.random()
    if depth <= 0 or r < 0.4:
        if aliases and rng.random() < 0.3:
            return ("N", rng.choice(aliases))
        return (rng.choice("bifso"),)
    r = rng.random()
    if r < 0.2:
        return ("A", rand_ty(rng, depth - 1, aliases))
    if r < 0.35:
        return ("D", rand_ty(rng, depth - 1, aliases))
    if r < 0.55 and allow_maybe:
        return ("Q", rand_ty(rng, depth - 1, aliases, allow_maybe=False))
    if r < 0.85:
        return rand_struct(rng, depth - 1, aliases)
    return ("E", rng.sample(["on", "off", "idle", "busy", "a", "type"], rng.choice([1, 2, 3])))


def rand_struct(rng, depth, aliases, maxf=4):
    n = rng.choice([0, 1, 1, 2, 3, maxf])
    names = rng.sample(FIELDS, n)
    return ("S", [(nm, rand_ty(rng, depth, aliases)) for nm in names])


IFACES = ["a.b", "org.example.more", "com.example.a-b.c1", "A.B", "org.example.Up-Case", "a.b-c-d", "xn--lgbbat1ad8j.example.algeria", "x.y.z", "io.systemd.test", "a.b1"]


def rand_idl(rng, depth=3):
    n_alias = rng.choice([0, 1, 2, 3])
    alias_names = rng.sample(["T", "U", "Foo", "Bar9", "State", "Cfg"], n_alias)
    members = []
    defined = []
    for nm in alias_names:
        members.append(("T", nm, "", rand_ty(rng, depth, defined)))
        defined.append(nm)
    for nm in rng.sample(["M", "Ping", "Get9", "Start", "Do"], rng.choice([1, 2, 3])):
        members.append(("M", nm, "", rand_struct(rng, depth - 1, defined), rand_struct(rng, depth - 1, defined)))
    for nm in rng.sample(["E1", "NotFound", "Bad", "Err"], rng.choice([0, 1, 2])):
        r = rng.random()
        members.append(("X", nm, "", None if r < 0.3 else rand_struct(rng, depth - 1, defined) if r < 0.85 else rand_ty(rng, 1, defined)))
    rng.shuffle(members)
    # aliases may be referenced before their definition: Go does not care
    return (rng.choice(IFACES), "", members)


def systematic():
    """every type constructor at every position, typeless errors, dashes / upper case, keywords and generator locals as field names"""
    out = []
    e = ("S", [])
    def mentions(t, name):
        if t[0] == "N":
            return t[1] == name
        if t[0] in "AQD":
            return mentions(t[1], name)
        if t[0] == "S":
            return any(mentions(ft, name) for _, ft in t[1])
        return False

    for t in G.enum_types(1) + [("Q", ("S", [("c", ("i",))])), ("A", ("Q", ("S", [("c", ("s",))]))), ("Q", ("A", ("S", [("c", ("b",))]))), ("Q", ("E", ["a", "b"])),
                                ("D", ("Q", ("S", [("c", ("N", "T"))])))]:
        if t == ("N", "T"):
            continue
        if not mentions(t, "T"):
            out.append(("a.b", "", [("T", "T", "", t), ("M", "M", "", e, e)]))
        else:
            # a type may not contain itself by value: reference a second alias instead
            out.append(("a.b", "", [("T", "T", "", ("S", [("k", ("i",))])), ("T", "U", "", t), ("M", "M", "", e, e)]))
        defs = [("T", "T", "", ("S", [("k", ("i",))]))] if mentions(t, "T") else []      # references must be resolvable
        out.append(("a.b", "", defs + [("M", "M", "", ("S", [("x", t)]), ("S", [("y", t)]))]))
        out.append(("a.b", "", defs + [("M", "M", "", e, e), ("X", "E", "", ("S", [("z", t)]))]))
        if not mentions(t, "T"):
            out.append(("a.b", "", [("T", "T", "", ("S", [("n", ("A", ("S", [("w", t)])))])), ("M", "M", "", ("S", [("p", ("N", "T"))]), ("S", [("q", ("Q", ("N", "T")))]))]))
    out.append(("a.b", "", [("M", "M", "", e, e), ("X", "E", "", None)]))
    out.append(("a.b", "", [("M", "M", "", e, e), ("X", "E", "", None), ("X", "F", "", ("S", []))]))
    # an error's parameter type may be any type, not only a struct: enum, builtin, array, map, optional, alias
    for t in [("E", ["low", "high"]), ("E", ["a"]), ("s",), ("i",), ("o",), ("A", ("i",)), ("D", ("s",)), ("Q", ("S", [("c", ("i",))])), ("Q", ("i",)),
              ("A", ("S", [("c", ("i",))])), ("N", "T")]:
        out.append(("a.b", "", [("T", "T", "", ("S", [("k", ("i",))])), ("M", "M", "", e, e), ("X", "E", "", t), ("X", "F", "", ("S", [("z", ("s",))]))]))
        out.append(("a.b", "", [("T", "T", "", ("E", ["on", "off"])), ("M", "M", "", e, e), ("X", "E", "", t)]))
    # ... also when the optional hides behind aliases (a Go pointer type cannot carry the Error method)
    for body in [("Q", ("i",)), ("Q", ("S", [("c", ("i",))])), ("Q", ("N", "U")), ("N", "U"), ("Q", ("N", "T"))]:
        out.append(("a.b", "", [("T", "T", "", body), ("T", "U", "", ("Q", ("S", [("k", ("s",))]))), ("M", "M", "", e, e), ("X", "E", "", ("N", "T")),
                                ("X", "F", "", ("Q", ("N", "T")))]))
    for nm in IFACES:
        out.append((nm, "", [("M", "M", "", ("S", [("a", ("i",))]), e)]))
    for kw in GO_KEYWORDS + LOCALS:
        # an error parameter called "error" would become a field Error beside the generated method Error():
        # that is a member "named like one of the generator's own fixed identifiers" and outside the domain
        ef = kw if kw != "error" else "errors"
        out.append(("a.b", "", [("M", "M", "", ("S", [(kw, ("s",))]), ("S", [(kw, ("i",))])), ("X", "E", "", ("S", [(ef, ("b",))]))]))
    return out
