#!/usr/bin/env python3-vt
# validate MANIFEST.json and evidence/*.json against the schemas; run with python3-vt (the tooling venv has jsonschema)
import glob, json
import jsonschema
jsonschema.validate(json.load(open('MANIFEST.json')), json.load(open('/root/.vp/MANIFEST.schema.json')))
for p in sorted(glob.glob('evidence/*.json')):
    jsonschema.validate(json.load(open(p)), json.load(open('/root/.vp/EVIDENCE.schema.json')))
    print('valid', p)
print('MANIFEST valid')
