#!/bin/sh
# Build the framework from files on disk only (offline): Coq development (full .vo), extracted driver, Go harness.
set -e
cd "$(dirname "$0")"
export GOFLAGS=-mod=mod GOPROXY=off GOSUMDB=off GOTOOLCHAIN=local
mkdir -p build/bin build/ml evidence replays
( cd coq && coq_makefile -f _CoqProject -o Makefile >/dev/null && timeout 3000 make -j16 )
python3 - <<'PY'
import sys
sys.path.insert(0, "lib")
import vcheck as V
ok, out = V.build_driver()
print("driver:", "ok" if ok else out)
if not ok:
    sys.exit(1)
import os
for d in sorted(os.listdir("harness/cmd")):
    ok, out, _ = V.build_go(d)
    print("harness", d, "ok" if ok else out)
    if not ok:
        sys.exit(1)
PY
